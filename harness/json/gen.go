package json

import (
	"encoding/base64"
	"fmt"
	"math"
	"math/big"
	"math/rand/v2"
	"strconv"
	"strings"

	"google.golang.org/protobuf/encoding/protojson"
	testpb "google.golang.org/protobuf/internal/testprotos/test"
	test3pb "google.golang.org/protobuf/internal/testprotos/test3"
	textpb2 "google.golang.org/protobuf/internal/testprotos/textpb2"
	"google.golang.org/protobuf/internal/verifh/core"
	"google.golang.org/protobuf/proto"
	"google.golang.org/protobuf/reflect/protoreflect"
	"google.golang.org/protobuf/types/known/anypb"
	"google.golang.org/protobuf/types/known/structpb"
	"google.golang.org/protobuf/types/known/wrapperspb"
)

// ---------------------------------------------------------------------------------------------- random messages (op marshal)

var cornerStrings = []string{"", "a", "\x0b", "\x0e\x0f\x10\x01", "\"", "\\", "/", "\n", "\t", "\x00", "\x1f", "\x7f", "é", " ", " ", "😀", "</script>&",
	"a\"b\\c", "\u0080", "�", "\U0010ffff", " x ", "{\"a\":1}", "[1,2]", "1e5", "null", "\r\n", "\b\f"}

func randString(r *rand.Rand) string {
	switch r.IntN(8) {
	case 0:
		return cornerStrings[r.IntN(len(cornerStrings))] + cornerStrings[r.IntN(len(cornerStrings))]
	case 1:
		return string([]byte{byte(r.IntN(256)), byte(r.IntN(256))}) // mostly invalid UTF-8: Marshal must fail, not emit garbage
	default:
		return cornerStrings[r.IntN(len(cornerStrings))]
	}
}

func randFloat64(r *rand.Rand) float64 {
	switch r.IntN(10) {
	case 0:
		return math.NaN()
	case 1:
		return math.Inf(1 - 2*r.IntN(2))
	case 2:
		return []float64{0, math.Copysign(0, -1), 1e21, 1e-6, 9.999999e20, 1e-7, math.MaxFloat64, math.SmallestNonzeroFloat64, 1e20, 123456789012345678, -1.5, 0.1}[r.IntN(12)]
	case 3:
		return float64(r.IntN(1000)) - 500
	case 4:
		return float64(math.Float32frombits(r.Uint32()))
	default:
		return math.Float64frombits(r.Uint64())
	}
}

func randFloat32(r *rand.Rand) float32 {
	switch r.IntN(6) {
	case 0:
		return []float32{0, float32(math.Copysign(0, -1)), 1e21, 1e-6, 9.999999e20, 1e-7, math.MaxFloat32, math.SmallestNonzeroFloat32, 16777216, 0.1}[r.IntN(10)]
	case 1:
		return float32(r.IntN(1000)) - 500
	}
	return math.Float32frombits(r.Uint32())
}

func randInt64(r *rand.Rand) int64 {
	n := r.IntN(65)
	if n == 0 {
		return 0
	}
	v := r.Uint64() >> (64 - n)
	if r.IntN(2) == 0 {
		return -int64(v)
	}
	return int64(v)
}

func randStructValue(r *rand.Rand, depth int) *structpb.Value {
	k := r.IntN(7)
	if depth <= 0 && k >= 5 {
		k = r.IntN(5)
	}
	switch k {
	case 0:
		return structpb.NewNullValue()
	case 1:
		return structpb.NewBoolValue(r.IntN(2) == 0)
	case 2:
		f := randFloat64(r)
		if r.IntN(8) != 0 && (math.IsNaN(f) || math.IsInf(f, 0)) {
			f = 1.5
		}
		return structpb.NewNumberValue(f)
	case 3, 4:
		return structpb.NewStringValue(randString(r))
	case 5:
		l := &structpb.ListValue{}
		for i := r.IntN(3); i > 0; i-- {
			l.Values = append(l.Values, randStructValue(r, depth-1))
		}
		return structpb.NewListValue(l)
	default:
		s := &structpb.Struct{Fields: map[string]*structpb.Value{}}
		for i := r.IntN(3); i > 0; i-- {
			s.Fields[randString(r)] = randStructValue(r, depth-1)
		}
		return structpb.NewStructValue(s)
	}
}

// populate sets up to nf random fields of m.
func populate(r *rand.Rand, m protoreflect.Message, depth, nf int) {
	md := m.Descriptor()
	switch md.FullName() {
	case "google.protobuf.Timestamp":
		secs := []int64{0, 1, -1, -62135596800, 253402300799, 1700000000, 253402300800}[r.IntN(7)]
		nanos := []int64{0, 1, 999999999, 120000000, 123456000, 1000000000, -1}[r.IntN(7)]
		m.Set(md.Fields().ByNumber(1), protoreflect.ValueOfInt64(secs))
		m.Set(md.Fields().ByNumber(2), protoreflect.ValueOfInt32(int32(nanos)))
		return
	case "google.protobuf.Duration":
		secs := []int64{0, 1, -1, 315576000000, -315576000000, 3, 315576000001}[r.IntN(7)]
		nanos := []int64{0, 1, 999999999, 500000000, 10, -1, -999999999}[r.IntN(7)]
		if secs < 0 && nanos > 0 && r.IntN(4) != 0 {
			nanos = -nanos
		}
		m.Set(md.Fields().ByNumber(1), protoreflect.ValueOfInt64(secs))
		m.Set(md.Fields().ByNumber(2), protoreflect.ValueOfInt32(int32(nanos)))
		return
	case "google.protobuf.FieldMask":
		l := m.Mutable(md.Fields().ByNumber(1)).List()
		paths := []string{"foo", "foo_bar", "foo.bar_baz", "a.b.c", "x_1", "fooBar", "foo__bar", ""}
		for i := r.IntN(3); i > 0; i-- {
			l.Append(protoreflect.ValueOfString(paths[r.IntN(len(paths))]))
		}
		return
	case "google.protobuf.Any":
		var inner proto.Message
		switch r.IntN(5) {
		case 0:
			inner = &wrapperspb.StringValue{Value: randString(r)}
		case 1:
			inner = &testpb.TestAllTypes{OptionalInt64: proto.Int64(randInt64(r)), OptionalString: proto.String(randString(r))}
		case 2:
			inner = randStructValue(r, 1)
		case 3:
			inner = &wrapperspb.Int64Value{Value: randInt64(r)}
		default:
			return // empty Any
		}
		b, _ := proto.MarshalOptions{AllowPartial: true}.Marshal(inner)
		m.Set(md.Fields().ByNumber(1), protoreflect.ValueOfString("type.googleapis.com/"+string(inner.ProtoReflect().Descriptor().FullName())))
		m.Set(md.Fields().ByNumber(2), protoreflect.ValueOfBytes(b))
		return
	case "google.protobuf.Value":
		proto.Merge(m.Interface(), randStructValue(r, depth))
		return
	case "google.protobuf.Struct":
		mp := m.Mutable(md.Fields().ByNumber(1)).Map()
		for i := r.IntN(3); i > 0; i-- {
			mp.Set(protoreflect.ValueOfString(randString(r)).MapKey(), protoreflect.ValueOfMessage(randStructValue(r, depth).ProtoReflect()))
		}
		return
	case "google.protobuf.ListValue":
		l := m.Mutable(md.Fields().ByNumber(1)).List()
		for i := r.IntN(3); i > 0; i-- {
			l.Append(protoreflect.ValueOfMessage(randStructValue(r, depth).ProtoReflect()))
		}
		return
	}
	fds := md.Fields()
	if fds.Len() == 0 {
		return
	}
	for i := 0; i < nf; i++ {
		fd := fds.Get(r.IntN(fds.Len()))
		if fd.Message() != nil && depth <= 0 {
			continue
		}
		switch {
		case fd.IsList():
			l := m.Mutable(fd).List()
			for k := 1 + r.IntN(2); k > 0; k-- {
				if fd.Message() != nil {
					e := l.NewElement()
					populate(r, e.Message(), depth-1, 1+r.IntN(2))
					l.Append(e)
				} else {
					l.Append(randScalar(r, fd))
				}
			}
		case fd.IsMap():
			mp := m.Mutable(fd).Map()
			for k := 1 + r.IntN(2); k > 0; k-- {
				key := randScalar(r, fd.MapKey()).MapKey()
				if fd.MapValue().Message() != nil {
					e := mp.NewValue()
					populate(r, e.Message(), depth-1, 1+r.IntN(2))
					mp.Set(key, e)
				} else {
					mp.Set(key, randScalar(r, fd.MapValue()))
				}
			}
		case fd.Message() != nil:
			populate(r, m.Mutable(fd).Message(), depth-1, 1+r.IntN(2))
		default:
			m.Set(fd, randScalar(r, fd))
		}
	}
}

func randScalar(r *rand.Rand, fd protoreflect.FieldDescriptor) protoreflect.Value {
	switch fd.Kind() {
	case protoreflect.BoolKind:
		return protoreflect.ValueOfBool(r.IntN(2) == 0)
	case protoreflect.Int32Kind, protoreflect.Sint32Kind, protoreflect.Sfixed32Kind:
		return protoreflect.ValueOfInt32(int32(randInt64(r)))
	case protoreflect.Int64Kind, protoreflect.Sint64Kind, protoreflect.Sfixed64Kind:
		return protoreflect.ValueOfInt64(randInt64(r))
	case protoreflect.Uint32Kind, protoreflect.Fixed32Kind:
		return protoreflect.ValueOfUint32(uint32(randInt64(r)))
	case protoreflect.Uint64Kind, protoreflect.Fixed64Kind:
		return protoreflect.ValueOfUint64(uint64(randInt64(r)))
	case protoreflect.FloatKind:
		return protoreflect.ValueOfFloat32(randFloat32(r))
	case protoreflect.DoubleKind:
		return protoreflect.ValueOfFloat64(randFloat64(r))
	case protoreflect.StringKind:
		return protoreflect.ValueOfString(randString(r))
	case protoreflect.BytesKind:
		b := make([]byte, r.IntN(5))
		for i := range b {
			b[i] = byte(r.Uint32())
		}
		return protoreflect.ValueOfBytes(b)
	case protoreflect.EnumKind:
		vs := fd.Enum().Values()
		if r.IntN(5) == 0 {
			return protoreflect.ValueOfEnum(protoreflect.EnumNumber(r.IntN(2000) - 1000))
		}
		return protoreflect.ValueOfEnum(vs.Get(r.IntN(vs.Len())).Number())
	}
	panic("harness: randScalar " + fd.Kind().String())
}

var marshalTypes = map[string]func() proto.Message{
	"TestAllTypes": func() proto.Message { return &testpb.TestAllTypes{} },
	"Test3":        func() proto.Message { return &test3pb.TestAllTypes{} },
	"KnownTypes":   func() proto.Message { return &textpb2.KnownTypes{} },
	"Struct":       func() proto.Message { return &structpb.Struct{} },
	"Value":        func() proto.Message { return &structpb.Value{} },
	"ListValue":    func() proto.Message { return &structpb.ListValue{} },
	"Any":          func() proto.Message { return &anypb.Any{} },
	"Nests":        func() proto.Message { return &textpb2.Nests{} },
	"Maps":         func() proto.Message { return &textpb2.Maps{} },
	"DoubleValue":  func() proto.Message { return &wrapperspb.DoubleValue{} },
	"FloatValue":   func() proto.Message { return &wrapperspb.FloatValue{} },
	"StringValue":  func() proto.Message { return &wrapperspb.StringValue{} },
	"TestAllExt":   func() proto.Message { return &testpb.TestAllExtensions{} },
}
var marshalTypeNames = []string{"TestAllTypes", "TestAllTypes", "Test3", "KnownTypes", "KnownTypes", "Struct", "Value", "ListValue", "Any",
	"Nests", "Maps", "DoubleValue", "FloatValue", "StringValue", "TestAllExt"}

func execMarshal(c core.Case) core.Case {
	mk := marshalTypes[core.Str(c["t"])]
	if mk == nil {
		panic("harness: unknown marshal type " + core.Str(c["t"]))
	}
	seed := core.U64(c["seed"])
	o := core.Int(c["o"])
	r := rand.New(rand.NewPCG(seed, 0x6a09e667f3bcc908))
	m := mk()
	populate(r, m.ProtoReflect(), 2, 1+r.IntN(4))
	if core.Str(c["t"]) == "TestAllExt" && r.IntN(2) == 0 {
		proto.SetExtension(m, testpb.E_OptionalString, randString(r))
		proto.SetExtension(m, testpb.E_RepeatedInt64, []int64{randInt64(r), randInt64(r)})
	}
	base := protojson.MarshalOptions{AllowPartial: true, UseProtoNames: o&1 != 0, UseEnumNumbers: o&2 != 0,
		EmitUnpopulated:   o&4 != 0 && core.Str(c["t"]) != "TestAllTypes" && core.Str(c["t"]) != "Test3",
		EmitDefaultValues: o&8 != 0 && core.Str(c["t"]) == "KnownTypes"}
	cb, err1 := base.Marshal(m)
	ml := base
	ml.Multiline = true
	ml.Indent = []string{"", "\t", " ", "   "}[(o>>4)&3]
	mb, err2 := ml.Marshal(m)
	out := core.Case{"err": 0, "errm": 0, "c": []any{}, "m": []any{}}
	if err1 != nil {
		out["err"] = 1
	} else {
		out["c"] = core.B(cb)
	}
	if err2 != nil {
		out["errm"] = 1
	} else {
		out["m"] = core.B(mb)
	}
	return out
}

// ---------------------------------------------------------------------------------------------- C21 generator

func randJSON(r *rand.Rand, depth int, sb *strings.Builder) {
	ws := func() {
		if r.IntN(4) == 0 {
			sb.WriteString([]string{" ", "\n", "\t", "\r\n", "  "}[r.IntN(5)])
		}
	}
	k := r.IntN(9)
	if depth <= 0 && k >= 7 {
		k = r.IntN(7)
	}
	switch k {
	case 0:
		sb.WriteString("null")
	case 1:
		sb.WriteString([]string{"true", "false"}[r.IntN(2)])
	case 2, 3:
		sb.WriteString(randNumberLiteral(r))
	case 4, 5, 6:
		sb.WriteString(randJSONString(r))
	case 7:
		sb.WriteString("[")
		ws()
		n := r.IntN(4)
		for i := 0; i < n; i++ {
			if i > 0 {
				sb.WriteString(",")
				ws()
			}
			randJSON(r, depth-1, sb)
			ws()
		}
		sb.WriteString("]")
	default:
		sb.WriteString("{")
		ws()
		n := r.IntN(4)
		for i := 0; i < n; i++ {
			if i > 0 {
				sb.WriteString(",")
				ws()
			}
			if r.IntN(3) == 0 {
				sb.WriteString([]string{`"a"`, `"b"`, `"a"`, `"optionalInt32"`, `"@type"`, `""`}[r.IntN(6)])
			} else {
				sb.WriteString(randJSONString(r))
			}
			ws()
			sb.WriteString(":")
			ws()
			randJSON(r, depth-1, sb)
			ws()
		}
		sb.WriteString("}")
	}
}

func randJSONString(r *rand.Rand) string {
	pieces := []string{"a", "b", " ", "\\n", "\\\"", "\\\\", "\\/", "\\u0041", "\\u00e9", "\\ud83d\\ude00", "é", "€", "😀", "\\t", "0", "x", "\\b\\f\\r",
		"\\u2028", "\x7f", "\\u0000"}
	var sb strings.Builder
	sb.WriteString(`"`)
	for n := r.IntN(4); n > 0; n-- {
		sb.WriteString(pieces[r.IntN(len(pieces))])
	}
	if r.IntN(12) == 0 { // sometimes wrong
		sb.WriteString([]string{"\\ud83d", "\\ude00", "\\x", "\n", "\xff", "\\u12", "\t", "\\u00zz", "\\", "\xed\xa0\x80", "\xc0\xaf", "\\ud83d\\u0041", "\\U0041"}[r.IntN(13)])
	}
	sb.WriteString(`"`)
	return sb.String()
}

func randNumberLiteral(r *rand.Rand) string {
	var sb strings.Builder
	if r.IntN(3) == 0 {
		sb.WriteString("-")
	}
	switch r.IntN(4) {
	case 0:
		sb.WriteString("0")
	default:
		sb.WriteString(strconv.Itoa(1 + r.IntN(9)))
		for n := r.IntN(4); n > 0; n-- {
			sb.WriteString(strconv.Itoa(r.IntN(10)))
		}
	}
	if r.IntN(3) == 0 {
		sb.WriteString(".")
		for n := 1 + r.IntN(3); n > 0; n-- {
			sb.WriteString(strconv.Itoa(r.IntN(10)))
		}
	}
	if r.IntN(3) == 0 {
		sb.WriteString([]string{"e", "E"}[r.IntN(2)])
		sb.WriteString([]string{"", "+", "-"}[r.IntN(3)])
		for n := 1 + r.IntN(2); n > 0; n-- {
			sb.WriteString(strconv.Itoa(r.IntN(10)))
		}
	}
	if r.IntN(10) == 0 { // sometimes wrong
		return []string{"01", "1.", ".5", "1e", "1e+", "-", "+1", "0x1", "1.e2", "--1", "1e2.5", "1_0", "Infinity", "NaN", "-Infinity", "1E", "0.e1", "-.5", "00", "1e-"}[r.IntN(20)]
	}
	return sb.String()
}

var mutChars = []byte("{}[],:\"\\ \n01-+.eEtrufalsn/x\x00\x1f\x7f\x80\xc3\xff")

func mutateDoc(r *rand.Rand, b []byte) []byte {
	b = append([]byte{}, b...)
	if len(b) == 0 {
		return []byte{mutChars[r.IntN(len(mutChars))]}
	}
	i := r.IntN(len(b))
	switch r.IntN(7) {
	case 0:
		return b[:i]
	case 1:
		return append(b[:i], b[i+1:]...)
	case 2:
		b[i] = mutChars[r.IntN(len(mutChars))]
	case 3:
		return append(b[:i], append([]byte{mutChars[r.IntN(len(mutChars))]}, b[i:]...)...)
	case 4:
		j := r.IntN(len(b))
		b[i], b[j] = b[j], b[i]
	case 5: // duplicate a slice
		j := i + r.IntN(len(b)-i)
		return append(b[:j], append(append([]byte{}, b[i:j]...), b[j:]...)...)
	case 6:
		return append(b, mutChars[r.IntN(len(mutChars))])
	}
	return b
}

var soupTokens = []string{"{", "}", "[", "]", ",", ":", `"a"`, `"b"`, "1", "-1", "1.5", "1e2", "true", "false", "null", " ", "\n", `"é"`, "0", `""`,
	"tru", "nul", "1e", "-", `"`, "\\", "'a'", "True", "NaN", "//", "/*", "\x00", "\xef\xbb\xbf"}

func randWellFormedOps(r *rand.Rand, budget *int, depth int, out *[]any) {
	strs := []string{"", "a", "\x0b", "\x0f\x10", "\"", "\\", "\n", "\x1f", "é", " ", "😀", "</", "\x7f", "\x00", "a b"}
	emit := func(o string, t []byte) { *out = append(*out, map[string]any{"o": o, "t": core.B(t)}) }
	*budget--
	k := r.IntN(8)
	if depth <= 0 || *budget <= 0 {
		k = r.IntN(5)
	}
	switch k {
	case 0:
		emit("null", nil)
	case 1:
		emit("bool", []byte{byte(r.IntN(2))})
	case 2:
		emit("int", []byte(strconv.FormatInt(randInt64(r), 10)))
	case 3:
		emit("uint", []byte(strconv.FormatUint(uint64(randInt64(r)), 10)))
	case 4:
		emit("str", []byte(strs[r.IntN(len(strs))]))
	case 5, 6:
		emit("so", nil)
		for n := r.IntN(3); n > 0 && *budget > 0; n-- {
			emit("name", []byte(strs[r.IntN(len(strs))]))
			randWellFormedOps(r, budget, depth-1, out)
		}
		emit("eo", nil)
	default:
		emit("sa", nil)
		for n := r.IntN(4); n > 0 && *budget > 0; n-- {
			randWellFormedOps(r, budget, depth-1, out)
		}
		emit("ea", nil)
	}
}

func seedBytes(r *rand.Rand) []any { return core.FromU64(r.Uint64()) }

func genC21(r *rand.Rand, n int, emit func(core.Case)) {
	for i := 0; i < n; i++ {
		switch x := r.IntN(20); {
		case x < 5: // valid document (or nearly)
			var sb strings.Builder
			randJSON(r, 3, &sb)
			b := []byte(sb.String())
			if len(b) > 90 {
				continue
			}
			emit(core.Case{"op": "doc", "s": core.B(b)})
		case x < 10: // mutated document
			var sb strings.Builder
			randJSON(r, 2, &sb)
			b := []byte(sb.String())
			for k := 1 + r.IntN(2); k > 0; k-- {
				b = mutateDoc(r, b)
			}
			if len(b) > 90 {
				b = b[:90]
			}
			emit(core.Case{"op": "doc", "s": core.B(b)})
		case x < 12: // token soup
			var sb strings.Builder
			for k := 1 + r.IntN(7); k > 0; k-- {
				sb.WriteString(soupTokens[r.IntN(len(soupTokens))])
			}
			emit(core.Case{"op": "doc", "s": core.B([]byte(sb.String()))})
		case x < 14: // mutated marshal output of a real message
			mk := marshalTypes[marshalTypeNames[r.IntN(len(marshalTypeNames))]]
			m := mk()
			populate(r, m.ProtoReflect(), 1, 1+r.IntN(2))
			b, err := protojson.MarshalOptions{AllowPartial: true, Multiline: r.IntN(2) == 0}.Marshal(m)
			if err != nil || len(b) > 90 {
				continue
			}
			if r.IntN(3) != 0 {
				b = mutateDoc(r, b)
			}
			emit(core.Case{"op": "doc", "s": core.B(b)})
		case x < 15:
			ops := []any{}
			budget := 2 + r.IntN(10)
			randWellFormedOps(r, &budget, 3, &ops)
			emit(core.Case{"op": "encseq", "ops": ops})
		default:
			c := core.Case{"op": "marshal", "t": marshalTypeNames[r.IntN(len(marshalTypeNames))], "seed": seedBytes(r), "o": r.IntN(64)}
			// keep the recorded outputs small enough for the TLA+ parser (inputs only are emitted; the size filter is not a verdict)
			if o := execMarshal(core.Norm(c).(map[string]any)); len(core.List(core.Norm(o["c"]))) > 260 {
				continue
			}
			emit(c)
		}
	}
}

// ---------------------------------------------------------------------------------------------- C22 generator

var limitValues = func() []*big.Int {
	var l []*big.Int
	one := big.NewInt(1)
	for _, e := range []uint{0, 7, 8, 15, 16, 24, 31, 32, 53, 63, 64} {
		p := new(big.Int).Lsh(one, e)
		for _, d := range []int64{-2, -1, 0, 1, 2} {
			v := new(big.Int).Add(p, big.NewInt(d))
			l = append(l, v, new(big.Int).Neg(v))
		}
	}
	for _, s := range []string{"0", "10", "100", "1000000", "10000000000000000000", "100000000000000000000", "9999999999", "4294967295", "18446744073709551615", "9223372036854775807"} {
		v, _ := new(big.Int).SetString(s, 10)
		l = append(l, v)
	}
	return l
}()

// intLiteral writes the integer v (or v + a non-zero fraction) in a random decimal notation.
func intLiteral(r *rand.Rand, v *big.Int, fractional bool) string {
	neg := v.Sign() < 0
	digits := new(big.Int).Abs(v).String() // no leading zeros; "0" for zero
	shift := 0                             // value = digits * 10^shift
	// strip or add trailing zeros of the mantissa
	if r.IntN(2) == 0 {
		for len(digits) > 1 && digits[len(digits)-1] == '0' && r.IntN(4) != 0 {
			digits = digits[:len(digits)-1]
			shift++
		}
	}
	if r.IntN(3) == 0 {
		k := r.IntN(4)
		digits += strings.Repeat("0", k)
		shift -= k
	}
	if fractional {
		k := 1 + r.IntN(3)
		digits += strings.Repeat("0", k-1) + strconv.Itoa(1+r.IntN(9))
		shift -= k
	}
	// place the decimal point: intPart . fracPart  e exp, with value = digits * 10^shift
	point := len(digits) // digits before the point
	switch r.IntN(5) {
	case 0:
		point = 1
	case 1:
		point = r.IntN(len(digits) + 1)
	case 2:
		point = -r.IntN(24) // 0.000ddd
	case 3:
		point = len(digits) + r.IntN(4) // extra zeros before the point
	}
	var ip, fp string
	switch {
	case point <= 0:
		ip, fp = "0", strings.Repeat("0", -point)+digits
	case point >= len(digits):
		ip, fp = digits+strings.Repeat("0", point-len(digits)), ""
	default:
		ip, fp = digits[:point], digits[point:]
	}
	// value = (ip.fp) * 10^exp  where ip.fp = digits * 10^(-(len(digits)-point)) ...
	exp := shift + (len(digits) - point)
	if len(ip) > 1 {
		ip = strings.TrimLeft(ip, "0")
		if ip == "" {
			ip = "0"
		}
	}
	if fp != "" && r.IntN(3) == 0 {
		fp += strings.Repeat("0", r.IntN(3))
	}
	var sb strings.Builder
	if neg || (v.Sign() == 0 && r.IntN(6) == 0) {
		sb.WriteString("-")
	}
	sb.WriteString(ip)
	if fp != "" {
		sb.WriteString("." + fp)
	}
	if exp != 0 || r.IntN(4) == 0 {
		sb.WriteString([]string{"e", "E"}[r.IntN(2)])
		if exp < 0 {
			sb.WriteString("-")
		} else if r.IntN(2) == 0 {
			sb.WriteString("+")
		}
		sb.WriteString(strings.Repeat("0", r.IntN(3)/2))
		if exp < 0 {
			sb.WriteString(strconv.Itoa(-exp))
		} else {
			sb.WriteString(strconv.Itoa(exp))
		}
	}
	return sb.String()
}

var numKinds = []string{"int32", "sint32", "sfixed32", "int64", "sint64", "sfixed64", "uint32", "fixed32", "uint64", "fixed64", "enum"}
var wrapperKinds = map[string]bool{"int32": true, "int64": true, "uint32": true, "uint64": true, "float": true, "double": true, "bytes": true}

func randCtx(r *rand.Rand, k string) string {
	c := []string{"w", "f", "f", "r", "m"}[r.IntN(5)]
	if c == "w" && !wrapperKinds[k] {
		c = "f"
	}
	return c
}

func decorate(r *rand.Rand, lit string) string {
	switch r.IntN(8) {
	case 0:
		return `"` + lit + `"`
	case 1:
		return " " + lit + "\n"
	case 2:
		return `"` + lit + ` "`
	case 3:
		if len(lit) > 0 {
			return fmt.Sprintf(`"\u%04x%s"`, lit[0], lit[1:])
		}
	}
	return lit
}

func genC22(r *rand.Rand, n int, emit func(core.Case)) {
	num := func(k, lit string) {
		emit(core.Case{"op": "num", "k": k, "ctx": randCtx(r, k), "lit": core.B([]byte(lit))})
	}
	for i := 0; i < n; i++ {
		switch x := r.IntN(20); {
		case x < 8: // integers around the type limits in every notation
			v := limitValues[r.IntN(len(limitValues))]
			if r.IntN(4) == 0 {
				v = new(big.Int).Add(v, big.NewInt(int64(r.IntN(7)-3)))
			}
			lit := intLiteral(r, v, r.IntN(6) == 0)
			if len(lit) > 60 {
				continue
			}
			num(numKinds[r.IntN(len(numKinds))], decorate(r, lit))
		case x < 10: // arbitrary literals, good and bad
			lit := randNumberLiteral(r)
			if r.IntN(3) == 0 {
				lit = string(mutateDoc(r, []byte(lit)))
			}
			num(numKinds[r.IntN(len(numKinds))], decorate(r, lit))
		case x < 13: // floats
			k := []string{"float", "double"}[r.IntN(2)]
			var lit string
			switch r.IntN(10) {
			case 0:
				lit = []string{`"NaN"`, `"Infinity"`, `"-Infinity"`, `"nan"`, `"inf"`, `"+Infinity"`, `NaN`, `"0x1p-2"`, `"1_0"`, `" 1"`, `"Inf"`, `"infinity"`}[r.IntN(12)]
			case 1: // around the largest finite values
				e := map[string]int{"float": 38, "double": 308}[k] + r.IntN(5) - 2
				lit = fmt.Sprintf("%d.%de%d", 1+r.IntN(9), r.IntN(1000), e)
			case 2:
				lit = intLiteral(r, big.NewInt(int64(r.IntN(1<<25))-1<<24), false)
			case 3:
				v := new(big.Int).Lsh(big.NewInt(1), 53)
				v.Add(v, big.NewInt(int64(r.IntN(9)-6)))
				lit = intLiteral(r, v, false)
			case 4:
				lit = strconv.FormatFloat(randFloat64(r), 'g', -1, 64)
			case 5:
				lit = fmt.Sprintf("%d.%de-%d", r.IntN(10), r.IntN(100000), r.IntN(400))
			case 6, 7: // literals a hair above / below the midpoint of two adjacent floats: a decoder that rounds twice
				// (decimal -> float64 -> float32) or with too few digits picks the wrong neighbour
				lit = midpointLiteral(r, k)
			default:
				lit = randNumberLiteral(r)
			}
			if r.IntN(5) == 0 {
				lit = decorate(r, lit)
			}
			num(k, lit)
		case x < 16: // bytes
			b := make([]byte, r.IntN(7))
			for j := range b {
				b[j] = byte(r.Uint32())
				if r.IntN(3) == 0 {
					b[j] = []byte{0xfb, 0xff, 0xfe, 0x3e, 0x3f, 0}[r.IntN(6)]
				}
			}
			enc := []*base64.Encoding{base64.StdEncoding, base64.URLEncoding, base64.RawStdEncoding, base64.RawURLEncoding}[r.IntN(4)]
			s := enc.EncodeToString(b)
			switch r.IntN(8) {
			case 0:
				s = string(mutateDoc(r, []byte(s)))
			case 1:
				s += "="
			case 2:
				s = strings.TrimRight(s, "=") + "="
			case 3:
				if len(s) > 1 {
					j := r.IntN(len(s))
					s = s[:j] + []string{"+", "-", "/", "_", "=", " ", "\\n", "*"}[r.IntN(8)] + s[j+1:]
				}
			case 4:
				if len(s) > 0 { // non-canonical trailing bits
					bs := []byte(strings.TrimRight(s, "="))
					bs[len(bs)-1] = "ABCDEFGHIJKLMNOPQRSTUVWXYZabcdefghijklmnopqrstuvwxyz0123456789"[r.IntN(62)]
					s = string(bs)
				}
			}
			lit := `"` + s + `"`
			if r.IntN(12) == 0 {
				lit = []string{"1", "null", "[]", `"` + s, "true"}[r.IntN(5)]
			}
			emit(core.Case{"op": "num", "k": "bytes", "ctx": randCtx(r, "bytes"), "lit": core.B([]byte(lit))})
		case x < 17: // enums
			lit := []string{`"FOO"`, `"BAR"`, `"BAZ"`, `"NEG"`, `"foo"`, `"QUX"`, `""`, `"1"`, "0", "1", "2", "-1", "3", "2147483647", "2147483648", "-2147483648",
				"-2147483649", "1.0", "1e0", "1.5", "10e-1", "true", `"FOO "`, `"FOO"`, "null"}[r.IntN(25)]
			emit(core.Case{"op": "num", "k": "enum", "ctx": []string{"f", "r", "m"}[r.IntN(3)], "lit": core.B([]byte(lit))})
		default: // marshal of scalars
			k := []string{"int32", "sint32", "sfixed32", "int64", "sint64", "sfixed64", "uint32", "fixed32", "uint64", "fixed64", "enum", "bytes"}[r.IntN(12)]
			ctx := "f"
			if wrapperKinds[k] && r.IntN(2) == 0 {
				ctx = "w"
			}
			var v []any
			switch k {
			case "bytes":
				b := make([]byte, r.IntN(8))
				for j := range b {
					b[j] = byte(r.Uint32())
				}
				v = core.B(b)
			case "enum":
				v = core.FromU64(uint64(int64([]int32{0, 1, 2, -1, 3, -2, 1000, math.MaxInt32, math.MinInt32}[r.IntN(9)])))
			case "int32", "sint32", "sfixed32":
				v = core.FromU64(uint64(int64(int32(randInt64(r)))))
			case "uint32", "fixed32":
				v = core.FromU64(uint64(uint32(randInt64(r))))
			default:
				v = core.FromU64(uint64(randInt64(r)))
			}
			emit(core.Case{"op": "enc", "k": k, "ctx": ctx, "v": v})
		}
	}
}

// midpointLiteral returns the exact decimal expansion of the midpoint between a random float (of kind k) and its upper
// neighbour, nudged up or down in the last place by one unit of a digit far below half an ulp of float64; the largest
// finite value's upper "neighbour" is the overflow threshold, the smallest subnormal's lower one is zero.
func midpointLiteral(r *rand.Rand, k string) string {
	var lo, hi *big.Float
	exact := func(f float64) *big.Float { return new(big.Float).SetPrec(2000).SetFloat64(f) }
	if k == "float" {
		var b uint32
		switch r.IntN(6) {
		case 0:
			b = 0x7f7fffff // MaxFloat32: midpoint to 2^128
		case 1:
			b = uint32(r.IntN(3)) // zero and the smallest subnormals
		case 2:
			b = 0x3f800000 + uint32(r.IntN(4)) // around 1.0
		default:
			b = r.Uint32() & 0x7fffffff
			if b >= 0x7f800000 {
				b = 0x7f7fffff - uint32(r.IntN(1000))
			}
		}
		lo = exact(float64(math.Float32frombits(b)))
		if b == 0x7f7fffff {
			hi = exact(math.Ldexp(1, 128))
		} else {
			hi = exact(float64(math.Float32frombits(b + 1)))
		}
	} else {
		b := r.Uint64() & 0x7fffffffffffffff
		switch r.IntN(5) {
		case 0:
			b = 0x7fefffffffffffff
		case 1:
			b = uint64(r.IntN(3))
		}
		if b >= 0x7ff0000000000000 {
			b = 0x7fefffffffffffff - uint64(r.IntN(1000))
		}
		lo = exact(math.Float64frombits(b))
		if b == 0x7fefffffffffffff {
			hi = new(big.Float).SetPrec(2000).SetMantExp(big.NewFloat(1), 1024)
		} else {
			hi = exact(math.Float64frombits(b + 1))
		}
	}
	mid := new(big.Float).SetPrec(2000).Add(lo, hi)
	mid.Quo(mid, big.NewFloat(2))
	s := mid.Text('f', -1)
	if len(s) > 55 || !strings.Contains(s, ".") { // keep literals short: use the exponent form with all significant digits
		s = mid.Text('e', 1200)
		mant, exp, _ := strings.Cut(s, "e")
		mant = strings.TrimRight(mant, "0")
		if strings.HasSuffix(mant, ".") {
			mant += "0"
		}
		if r.IntN(3) != 0 {
			if r.IntN(2) == 0 {
				mant += "1" // a hair above the midpoint
			} else if c := mant[len(mant)-1]; c >= '1' && c <= '9' { // a hair below: decrement the last digit and append a 9
				mant = mant[:len(mant)-1] + string(c-1) + "9"
			}
		}
		if r.IntN(2) == 0 {
			s = "-" + mant + "e" + exp
		} else {
			s = mant + "e" + exp
		}
		return s
	}
	if r.IntN(3) != 0 {
		if r.IntN(2) == 0 {
			s += "1"
		} else if s[len(s)-1] != '0' && s[len(s)-1] != '.' {
			s = s[:len(s)-1] + string(s[len(s)-1]-1) + "9"
		}
	}
	return s
}

// ---------------------------------------------------------------------------------------------- C26 generator

var wktPieces = []string{"0", "1", "9", "-", "+", ".", "s", "T", "Z", ":", "z", "t", " ", "2006-01-02T15:04:05", "999999999", "315576000001", ",", "a", "_", "b.c", "fooBar",
	"type.googleapis.com/", "google.protobuf.Duration", "pb2.Nested", "/", "e", "E", "\\u0031", "\\n"}

func wktSoup(r *rand.Rand) string {
	var sb strings.Builder
	for n := r.IntN(6); n > 0; n-- {
		sb.WriteString(wktPieces[r.IntN(len(wktPieces))])
	}
	return sb.String()
}

// wktDoc renders a document for textpb2.KnownTypes ("K") or textpb2.Nests ("G") whose values are token soups.
func wktDoc(r *rand.Rand, fmtName, t string) string {
	q := func() string { return `"` + wktSoup(r) + `"` }
	if t == "G" {
		if fmtName == "json" {
			return []string{`{"optgroup":{"optString":` + q() + `,"optnestedgroup":{"optFixed32":` + wktSoup(r) + `}}}`,
				`{"rptgroup":[{"rptString":[` + q() + `]},{}],"optNested":{"optNested":{"optString":` + q() + `}}}`}[r.IntN(2)]
		}
		return []string{`OptGroup{opt_string:` + q() + ` OptNestedGroup{opt_fixed32:` + wktSoup(r) + `}}`,
			`RptGroup{rpt_string:` + q() + `} RptGroup<> opt_nested<opt_nested{opt_string:` + q() + `}>`, `optgroup{} OptGroup:{}`}[r.IntN(3)]
	}
	if fmtName == "json" {
		return []string{`{"optDuration":` + q() + `}`, `{"optTimestamp":` + q() + `}`, `{"optFieldmask":` + q() + `}`,
			`{"optAny":{"@type":` + q() + `,"value":` + q() + `}}`, `{"optAny":{"value":` + q() + `,"@type":"type.googleapis.com/google.protobuf.Duration"}}`,
			`{"optAny":{"@type":"type.googleapis.com/pb2.Nested","optString":` + q() + `,"@type":"x"}}`,
			`{"optAny":{"@type":"type.googleapis.com/google.protobuf.Any","value":{"@type":"type.googleapis.com/google.protobuf.Empty","value":{}}}}`,
			`{"optStruct":{` + q() + `:` + wktSoup(r) + `}}`, `{"optValue":` + wktSoup(r) + `,"optList":[` + q() + `,null]}`, `{"optNull":` + q() + `,"optEmpty":{}}`,
			`{"optInt64":` + q() + `,"optDouble":` + q() + `,"optBytes":` + q() + `}`}[r.IntN(11)]
	}
	return []string{`opt_duration{seconds:` + wktSoup(r) + ` nanos:` + wktSoup(r) + `}`, `opt_timestamp<seconds:1 nanos:` + wktSoup(r) + `>`,
		`opt_any{[type.googleapis.com/pb2.Nested]{opt_string:` + q() + `}}`, `opt_any{[` + wktSoup(r) + `]{}}`, `opt_any{type_url:` + q() + ` value:` + q() + `}`,
		`opt_fieldmask{paths:` + q() + ` paths:[` + q() + `]}`, `opt_struct{fields{key:` + q() + ` value{number_value:` + wktSoup(r) + `}}}`,
		`opt_value{list_value{values{null_value:` + wktSoup(r) + `}}}`, `opt_int64{value:` + wktSoup(r) + `}`}[r.IntN(9)]
}

type fdesc struct{ jn, tn, vk, sub string }

var tableT = []fdesc{{"optionalInt32", "optional_int32", "int", ""}, {"optionalString", "optional_string", "str", ""},
	{"optionalNestedMessage", "optional_nested_message", "msg", "N"}, {"repeatedInt32", "repeated_int32", "list", ""},
	{"mapInt32Int32", "map_int32_int32", "map", ""}, {"defaultInt32", "default_int32", "int", ""}, {"oneofUint32", "oneof_uint32", "int", ""},
	{"oneofNestedMessage", "oneof_nested_message", "msg", "N"}, {"oneofString", "oneof_string", "str", ""},
	{"oneofOptionalUint32", "oneof_optional_uint32", "int", ""}}
var tableN = []fdesc{{"a", "a", "int", ""}, {"corecursive", "corecursive", "msg", "T"}}
var tableX = []fdesc{{"[goproto.proto.test.optional_int32]", "[goproto.proto.test.optional_int32]", "int", ""},
	{"[goproto.proto.test.optional_string]", "[goproto.proto.test.optional_string]", "str", ""},
	{"[goproto.proto.test.repeated_int32]", "[goproto.proto.test.repeated_int32]", "list", ""}}
var tableB = func() []fdesc {
	var l []fdesc
	for _, n := range []int{1, 2, 31, 32, 33, 62, 63, 64, 65, 66, 127, 128, 129, 255, 256, 1000, 65535, 65536, 536870911} {
		l = append(l, fdesc{"f" + strconv.Itoa(n), "f_" + strconv.Itoa(n), "int", ""})
	}
	for i := 0; i <= 66; i++ {
		l = append(l, fdesc{"a" + strconv.Itoa(i), "a_" + strconv.Itoa(i), "int", ""}, fdesc{"b" + strconv.Itoa(i), "b_" + strconv.Itoa(i), "int", ""})
	}
	return l
}()

func table(t string) []fdesc {
	switch t {
	case "T":
		return tableT
	case "N":
		return tableN
	case "X":
		return tableX
	}
	return tableB
}

func randMembers(r *rand.Rand, t, fmtName string, depth, maxn int) []any {
	tb := table(t)
	ms := []any{}
	n := r.IntN(maxn + 1)
	var prev *fdesc
	for i := 0; i < n; i++ {
		f := tb[r.IntN(len(tb))]
		if t == "B" && r.IntN(2) == 0 { // stay near the boundary
			f = tb[r.IntN(12)+3]
			if r.IntN(2) == 0 {
				f = tb[19+2*(60+r.IntN(7))+r.IntN(2)]
			}
		}
		if prev != nil && r.IntN(3) == 0 { // provoke duplicates
			f = *prev
		}
		prev = &f
		name := f.jn
		if r.IntN(2) == 0 {
			name = f.tn
		}
		if r.IntN(15) == 0 {
			name = "unknown_field"
		}
		m := map[string]any{"n": name, "sub": []any{}}
		switch f.vk {
		case "int":
			m["v"] = "int"
		case "str":
			m["v"] = "str"
		case "list":
			m["v"] = []string{"arr1", "arr1", "arr0", "int"}[r.IntN(4)]
		case "map":
			if fmtName == "text" {
				continue
			}
			m["v"] = "obj"
			sub := []any{}
			for k := r.IntN(3); k > 0; k-- {
				sub = append(sub, map[string]any{"n": []string{"1", "2", "3"}[r.IntN(3)], "v": "int", "sub": []any{}})
			}
			m["sub"] = sub
		case "msg":
			m["v"] = "obj"
			if depth > 0 {
				m["sub"] = randMembers(r, f.sub, fmtName, depth-1, 3)
			}
		}
		switch r.IntN(12) {
		case 0:
			if fmtName == "json" {
				m["v"], m["sub"] = "null", []any{}
			}
		case 1:
			if f.vk != "map" && f.vk != "msg" {
				m["v"] = []string{"int", "str", "arr1"}[r.IntN(3)]
			}
		}
		ms = append(ms, m)
	}
	return ms
}

// truncDocs: one well-formed document per literal form of the two grammars (signs, fractions, exponents, radix prefixes, float
// suffixes, every escape form, both message delimiters, lists, extension names, comments). Totality at the end of input: every
// prefix of every document goes through the decoder (a scanner that looks one byte ahead is exposed only when the input ends
// exactly there, which random mutation practically never produces).
var truncDocs = map[string][]string{
	"text": {
		"optional_float: 1e5", "optional_double: -2.5E+3", "optional_float: 1.5e-3f", "optional_float: .5", "optional_float: 5.",
		"optional_int32: 0x1F", "optional_int32: -017", "optional_int64: -9223372036854775808", "optional_uint64: 18446744073709551615",
		"optional_float: -inf", "optional_float: nan", "optional_double: - 1", "12e: 1", "12: 0x",
		`optional_string: "a\x41\101\u00e9\U0001F600\n\?" 'b'`, `optional_bytes: "\xff\377\0"`,
		"optional_nested_message { a: 1 }", "optional_nested_message: < a: 1 >", "repeated_int32: [1, -2]", "repeated_nested_message: [{a:1}, <a:2>]",
		"optional_nested_enum: BAR", "optional_nested_enum: -1", "optional_bool: true", "optional_bool: t",
		"[goproto.proto.test.optional_int32]: 1", "# c\noptional_int32: 1 # d", "map_int32_int32 { key: 1 value: 2 }", "optional_int32: 1; optional_int64: 2,",
	},
	"json": {
		`{"optionalFloat": 1e5}`, `{"optionalDouble": -2.5E+3}`, `{"optionalDouble": 1.0e-308}`, `{"optionalFloat": "NaN"}`, `{"optionalFloat": "-Infinity"}`,
		`{"optionalString": "a\u00e9\ud83d\ude00\n\/\\\""}`, `{"optionalInt32": "12"}`, `{"optionalInt32": 1.2e1}`, `{"optionalInt64": "-9223372036854775808"}`,
		`{"optionalNestedMessage": {"a": 1}}`, `{"repeatedInt32": [1, -2]}`, `{"optionalBool": true}`, `{"optionalBool": false, "optionalInt32": null}`,
		`{"optionalBytes": "AQI="}`, `{"optionalNestedEnum": "BAR"}`, `{"mapInt32Int32": {"1": 2}}`, `{"[goproto.proto.test.optional_int32]": 1}`, ` { "unknown" : [ { } , [ ] , -0.5 ] } `,
	},
}

func genTrunc(emit func(core.Case)) {
	for _, fmtName := range []string{"json", "text"} {
		for _, doc := range truncDocs[fmtName] {
			for _, t := range []string{"T", "X"} {
				for k := 0; k <= len(doc); k++ {
					emit(core.Case{"op": "fuzz", "fmt": fmtName, "t": t, "s": core.B([]byte(doc[:k])), "lim": 0, "du": k % 2, "trunc": 1})
				}
			}
		}
	}
}

func genC26(r *rand.Rand, n int, emit func(core.Case)) {
	genTrunc(emit)
	for i := 0; i < n; i++ {
		fmtName := []string{"json", "text"}[r.IntN(2)]
		switch x := r.IntN(20); {
		case x < 10:
			t := []string{"T", "T", "B", "B", "X"}[r.IntN(5)]
			lim := 0
			if r.IntN(4) == 0 {
				lim = 1 + r.IntN(4)
			}
			du := 0
			if r.IntN(5) == 0 {
				du = 1
			}
			emit(core.Case{"op": "members", "fmt": fmtName, "t": t, "ms": randMembers(r, t, fmtName, 3, 5), "lim": lim, "du": du})
		case x < 12:
			vias := []string{"one", "oneof", "list", "map", "skip"}
			if fmtName == "json" && r.IntN(5) == 0 {
				vias = []string{"value"}
			}
			lim := []int{0, 1, 2, 3, 5, 9, 17, 100}[r.IntN(8)]
			l := lim
			if l == 0 {
				l = 10000
			}
			d := l + r.IntN(7) - 3
			if r.IntN(4) == 0 {
				d = 1 + r.IntN(3*l)
			}
			if d < 1 {
				d = 1
			}
			emit(core.Case{"op": "nest", "fmt": fmtName, "via": vias[r.IntN(len(vias))], "d": d, "lim": lim})
		case x < 13:
			steps := []any{}
			elems := []uint64{0, 1, 31, 32, 62, 63, 64, 65, 127, 128, 1 << 32, 1<<32 + 63, 1 << 63, math.MaxUint64, 64 + 1<<32, 200}
			for k := 2 + r.IntN(14); k > 0; k-- {
				steps = append(steps, map[string]any{"o": []string{"set", "set", "clear", "has", "has", "len"}[r.IntN(6)], "n": core.FromU64(elems[r.IntN(len(elems))])})
			}
			emit(core.Case{"op": "ints", "steps": steps})
		default: // totality: arbitrary and mutated documents into both decoders
			t := []string{"T", "T3", "X", "B", "V", "S", "A", "R", "K", "K", "G"}[r.IntN(11)]
			var b []byte
			k := r.IntN(4)
			if t == "K" || t == "G" {
				k = 4
			}
			switch k {
			case 4: // well-known types and groups: field templates with soup values
				b = []byte(wktDoc(r, fmtName, t))
			case 0:
				var sb strings.Builder
				randJSON(r, 3, &sb)
				b = []byte(sb.String())
			case 1:
				for k := r.IntN(12); k > 0; k-- {
					b = append(b, soupTokens[r.IntN(len(soupTokens))]...)
				}
			default:
				var sb strings.Builder
				tt := t
				if tt != "T" && tt != "B" && tt != "X" {
					tt = "T"
				}
				if fmtName == "json" {
					sb.WriteString("{")
				}
				renderMembers(fmtName, randMembers(r, tt, fmtName, 3, 5), &sb)
				if fmtName == "json" {
					sb.WriteString("}")
				}
				b = []byte(sb.String())
			}
			for k := r.IntN(4); k > 0; k-- {
				b = mutateDoc(r, b)
			}
			if r.IntN(30) == 0 {
				b = []byte(strings.Repeat(string(b), 1+r.IntN(50)))
			}
			if r.IntN(30) == 0 {
				open := []string{"[", "{\"a\":", "{", "<", "a{", "a:[", "[{"}[r.IntN(7)]
				b = []byte(strings.Repeat(open, 1+r.IntN(1500)))
			}
			if len(b) > 6000 {
				b = b[:6000]
			}
			emit(core.Case{"op": "fuzz", "fmt": fmtName, "t": t, "s": core.B(b), "lim": []int{0, 0, 0, 1, 3}[r.IntN(5)], "du": r.IntN(2)})
		}
	}
}
