// Package json is the conformance harness of the JSON family (C21, C22, C26).
//
// Modules (one executor, three seeded generators):
//
//	json      C21  doc / encseq / marshal
//	jsonnum   C22  num / enc
//	jsonuniq  C26  members / nest / fuzz / ints
//
// Every case is a JSON object {op, ...inputs}; Exec runs it on the real code and returns raw
// observations only.  Verdicts come from the TLA+ specifications (spec/json): a tour line carries
// exp = Expect(case), a trace event is validated by Trace_Json.
package json

import (
	stdjson "encoding/json"
	"math"
	"strconv"
	"strings"

	"google.golang.org/protobuf/encoding/protojson"
	"google.golang.org/protobuf/encoding/prototext"
	ijson "google.golang.org/protobuf/internal/encoding/json"
	"google.golang.org/protobuf/internal/set"
	testpb "google.golang.org/protobuf/internal/testprotos/test"
	test3pb "google.golang.org/protobuf/internal/testprotos/test3"
	textpb2 "google.golang.org/protobuf/internal/testprotos/textpb2"
	"google.golang.org/protobuf/internal/verifh/core"
	"google.golang.org/protobuf/proto"
	"google.golang.org/protobuf/reflect/protodesc"
	"google.golang.org/protobuf/reflect/protoreflect"
	"google.golang.org/protobuf/types/descriptorpb"
	"google.golang.org/protobuf/types/dynamicpb"
	"google.golang.org/protobuf/types/known/anypb"
	"google.golang.org/protobuf/types/known/durationpb"
	"google.golang.org/protobuf/types/known/emptypb"
	"google.golang.org/protobuf/types/known/fieldmaskpb"
	"google.golang.org/protobuf/types/known/structpb"
	"google.golang.org/protobuf/types/known/timestamppb"
	"google.golang.org/protobuf/types/known/wrapperspb"
)

func init() {
	core.Register(&core.Module{Name: "json", Exec: exec, Gen: genC21})
	core.Register(&core.Module{Name: "jsonnum", Exec: exec, Gen: genC22})
	core.Register(&core.Module{Name: "jsonuniq", Exec: exec, Gen: genC26})
}

func exec(c core.Case) core.Case {
	switch core.Str(c["op"]) {
	case "doc":
		return execDoc(core.Bytes(c["s"]))
	case "encseq":
		return execEncSeq(core.List(c["ops"]))
	case "marshal":
		return execMarshal(c)
	case "num":
		return execNum(core.Str(c["k"]), core.Str(c["ctx"]), core.Bytes(c["lit"]))
	case "enc":
		return execEnc(core.Str(c["k"]), core.Str(c["ctx"]), core.Bytes(c["v"]))
	case "members":
		return execMembers(c)
	case "nest":
		return execNest(c)
	case "fuzz":
		return execFuzz(c)
	case "ints":
		return execInts(core.List(c["steps"]))
	}
	panic("harness: unknown json op " + core.Str(c["op"]))
}

// ---------------------------------------------------------------------------------------------- doc

type tok struct {
	k   string
	t   []byte
	pos int
}

func kindOf(t ijson.Token) (string, []byte) {
	switch t.Kind() {
	case ijson.ObjectOpen:
		return "{", nil
	case ijson.ObjectClose:
		return "}", nil
	case ijson.ArrayOpen:
		return "[", nil
	case ijson.ArrayClose:
		return "]", nil
	case ijson.Name:
		return "name", []byte(t.Name())
	case ijson.String:
		return "str", []byte(t.ParsedString())
	case ijson.Number:
		return "num", []byte(t.RawString())
	case ijson.Bool:
		if t.Bool() {
			return "true", nil
		}
		return "false", nil
	case ijson.Null:
		return "null", nil
	case ijson.EOF:
		return "eof", nil
	}
	return "invalid", nil
}

// readAll reads tokens until EOF or error.  With peek, every Read is preceded by a Peek whose result must
// be the token (or the error) that Read then returns.
func readAll(d *ijson.Decoder, peek bool) (toks []tok, ok bool, pkok bool) {
	pkok = true
	for i := 0; ; i++ {
		var pt ijson.Token
		var perr error
		if peek {
			pt, perr = d.Peek()
			if i%2 == 1 { // a second Peek must not advance
				pt2, perr2 := d.Peek()
				if (perr == nil) != (perr2 == nil) || (perr == nil && !ijson.TokenEquals(pt, pt2)) {
					pkok = false
				}
			}
		}
		t, err := d.Read()
		if peek && ((perr == nil) != (err == nil) || (err == nil && !ijson.TokenEquals(pt, t))) {
			pkok = false
		}
		if err != nil {
			return toks, false, pkok
		}
		k, txt := kindOf(t)
		if k == "eof" {
			return toks, true, pkok
		}
		toks = append(toks, tok{k, txt, t.Pos()})
		if len(toks) > 1<<20 {
			panic("harness: decoder does not terminate")
		}
	}
}

func sameToks(a, b []tok) bool {
	if len(a) != len(b) {
		return false
	}
	for i := range a {
		if a[i].k != b[i].k || string(a[i].t) != string(b[i].t) || a[i].pos != b[i].pos {
			return false
		}
	}
	return true
}

type target struct {
	name string
	mk   func() proto.Message
	o    protojson.UnmarshalOptions
}

var du = protojson.UnmarshalOptions{DiscardUnknown: true, AllowPartial: true}
var strict = protojson.UnmarshalOptions{AllowPartial: true}

var anyTargets = []target{
	{"ListValue", func() proto.Message { return &structpb.ListValue{} }, strict},
	{"Struct", func() proto.Message { return &structpb.Struct{} }, strict},
	{"Empty+du", func() proto.Message { return &emptypb.Empty{} }, du},
	{"TestAllTypes+du", func() proto.Message { return &testpb.TestAllTypes{} }, du},
	{"TestAllTypes", func() proto.Message { return &testpb.TestAllTypes{} }, strict},
	{"Test3+du", func() proto.Message { return &test3pb.TestAllTypes{} }, du},
	{"TestAllExtensions+du", func() proto.Message { return &testpb.TestAllExtensions{} }, du},
	{"Int32Value", func() proto.Message { return &wrapperspb.Int32Value{} }, strict},
	{"Int64Value", func() proto.Message { return &wrapperspb.Int64Value{} }, strict},
	{"UInt32Value", func() proto.Message { return &wrapperspb.UInt32Value{} }, strict},
	{"UInt64Value", func() proto.Message { return &wrapperspb.UInt64Value{} }, strict},
	{"FloatValue", func() proto.Message { return &wrapperspb.FloatValue{} }, strict},
	{"DoubleValue", func() proto.Message { return &wrapperspb.DoubleValue{} }, strict},
	{"BoolValue", func() proto.Message { return &wrapperspb.BoolValue{} }, strict},
	{"StringValue", func() proto.Message { return &wrapperspb.StringValue{} }, strict},
	{"BytesValue", func() proto.Message { return &wrapperspb.BytesValue{} }, strict},
	{"Any+du", func() proto.Message { return &anypb.Any{} }, du},
	{"Duration", func() proto.Message { return &durationpb.Duration{} }, strict},
	{"Timestamp", func() proto.Message { return &timestamppb.Timestamp{} }, strict},
	{"FieldMask", func() proto.Message { return &fieldmaskpb.FieldMask{} }, strict},
}

func execDoc(s []byte) core.Case {
	out := core.Case{}
	a, ok, _ := readAll(ijson.NewDecoder(s), false)
	dec := ok && len(a) >= 1
	out["dec"] = dec
	toks := []any{}
	if dec {
		for _, t := range a {
			toks = append(toks, map[string]any{"k": t.k, "t": core.B(t.t)})
		}
	}
	out["toks"] = toks
	// Peek before every Read
	b, okb, pk := readAll(ijson.NewDecoder(s), true)
	out["pk"] = pk && okb == ok && sameToks(a, b)
	// Clone after k tokens (and after a Peek): clone and original continue identically
	cl := true
	for k := 0; k <= len(a) && k <= 6; k++ {
		d := ijson.NewDecoder(s)
		for i := 0; i < k; i++ {
			d.Read()
		}
		if k%2 == 1 {
			d.Peek()
		}
		c := d.Clone()
		r1, ok1, _ := readAll(c, false)
		r2, ok2, _ := readAll(d, k%3 == 0)
		if ok1 != ok || ok2 != ok || !sameToks(r1, a[k:]) || !sameToks(r2, a[k:]) {
			cl = false
		}
	}
	out["cl"] = cl
	out["val"] = protojson.Unmarshal(s, &structpb.Value{}) == nil
	anyAcc := false
	who := []any{}
	for _, t := range anyTargets {
		if t.o.Unmarshal(s, t.mk()) == nil {
			anyAcc = true
			who = append(who, t.name)
		}
	}
	out["any"] = anyAcc
	out["who"] = who
	return out
}

// ---------------------------------------------------------------------------------------------- encseq

func execEncSeq(ops []any) core.Case {
	run := func(indent string) ([]byte, bool) {
		e, err := ijson.NewEncoder(nil, indent)
		if err != nil {
			panic(err)
		}
		bad := false
		for _, o := range ops {
			m := core.Map(o)
			t := core.Bytes(m["t"])
			switch core.Str(m["o"]) {
			case "so":
				e.StartObject()
			case "eo":
				e.EndObject()
			case "sa":
				e.StartArray()
			case "ea":
				e.EndArray()
			case "name":
				if e.WriteName(string(t)) != nil {
					bad = true
				}
			case "str":
				if e.WriteString(string(t)) != nil {
					bad = true
				}
			case "int":
				n, err := strconv.ParseInt(string(t), 10, 64)
				if err != nil {
					panic(err)
				}
				e.WriteInt(n)
			case "uint":
				n, err := strconv.ParseUint(string(t), 10, 64)
				if err != nil {
					panic(err)
				}
				e.WriteUint(n)
			case "bool":
				e.WriteBool(len(t) == 1 && t[0] == 1)
			case "null":
				e.WriteNull()
			default:
				panic("harness: unknown encoder op")
			}
		}
		return e.Bytes(), bad
	}
	c, bad1 := run("")
	indents := []string{"  ", "\t", " ", "    \t"}
	m, bad2 := run(indents[len(ops)%len(indents)])
	out := core.Case{"c": core.B(c), "m": core.B(m), "err": 0}
	if bad1 || bad2 {
		out["err"] = 1
	}
	return out
}

// ---------------------------------------------------------------------------------------------- num / enc

type kindInfo struct {
	wrapper func() proto.Message // nil if there is no wrapper type
	single  string               // JSON names in goproto.proto.test.TestAllTypes
	rep     string
	mp      string
	bits    int
}

var kinds = map[string]kindInfo{
	"int32":    {func() proto.Message { return &wrapperspb.Int32Value{} }, "optionalInt32", "repeatedInt32", "mapInt32Int32", 32},
	"sint32":   {nil, "optionalSint32", "repeatedSint32", "mapSint32Sint32", 32},
	"sfixed32": {nil, "optionalSfixed32", "repeatedSfixed32", "mapSfixed32Sfixed32", 32},
	"int64":    {func() proto.Message { return &wrapperspb.Int64Value{} }, "optionalInt64", "repeatedInt64", "mapInt64Int64", 64},
	"sint64":   {nil, "optionalSint64", "repeatedSint64", "mapSint64Sint64", 64},
	"sfixed64": {nil, "optionalSfixed64", "repeatedSfixed64", "mapSfixed64Sfixed64", 64},
	"uint32":   {func() proto.Message { return &wrapperspb.UInt32Value{} }, "optionalUint32", "repeatedUint32", "mapUint32Uint32", 32},
	"fixed32":  {nil, "optionalFixed32", "repeatedFixed32", "mapFixed32Fixed32", 32},
	"uint64":   {func() proto.Message { return &wrapperspb.UInt64Value{} }, "optionalUint64", "repeatedUint64", "mapUint64Uint64", 64},
	"fixed64":  {nil, "optionalFixed64", "repeatedFixed64", "mapFixed64Fixed64", 64},
	"float":    {func() proto.Message { return &wrapperspb.FloatValue{} }, "optionalFloat", "repeatedFloat", "mapInt32Float", 32},
	"double":   {func() proto.Message { return &wrapperspb.DoubleValue{} }, "optionalDouble", "repeatedDouble", "mapInt32Double", 64},
	"bytes":    {func() proto.Message { return &wrapperspb.BytesValue{} }, "optionalBytes", "repeatedBytes", "mapStringBytes", 0},
	"enum":     {nil, "optionalNestedEnum", "repeatedNestedEnum", "mapStringNestedEnum", 0},
}

// scalarOut converts a decoded scalar to the observation (8 bytes little endian, or the payload for bytes).
func scalarOut(fd protoreflect.FieldDescriptor, v protoreflect.Value, out core.Case) {
	switch fd.Kind() {
	case protoreflect.Int32Kind, protoreflect.Sint32Kind, protoreflect.Sfixed32Kind,
		protoreflect.Int64Kind, protoreflect.Sint64Kind, protoreflect.Sfixed64Kind:
		out["v"] = core.FromU64(uint64(v.Int()))
	case protoreflect.Uint32Kind, protoreflect.Fixed32Kind, protoreflect.Uint64Kind, protoreflect.Fixed64Kind:
		out["v"] = core.FromU64(v.Uint())
	case protoreflect.EnumKind:
		out["v"] = core.FromU64(uint64(int64(v.Enum())))
	case protoreflect.BytesKind:
		out["v"] = core.B(v.Bytes())
	case protoreflect.FloatKind, protoreflect.DoubleKind:
		f := v.Float()
		switch {
		case math.IsNaN(f):
			out["cls"] = "nan"
		case math.IsInf(f, 1):
			out["cls"] = "+inf"
		case math.IsInf(f, -1):
			out["cls"] = "-inf"
		default:
			out["cls"] = "fin"
			if fd.Kind() == protoreflect.FloatKind {
				out["v"] = core.FromU64(uint64(math.Float32bits(float32(f))))
			} else {
				out["v"] = core.FromU64(math.Float64bits(f))
			}
		}
	}
}

func execNum(k, ctx string, lit []byte) core.Case {
	ki, okk := kinds[k]
	if !okk {
		panic("harness: unknown kind " + k)
	}
	out := core.Case{"ran": true, "acc": false, "has": false, "cls": "", "fx": false}
	if k == "bytes" {
		out["v"] = []any{}
	} else {
		out["v"] = core.FromU64(0)
	}
	var m proto.Message
	var doc []byte
	var fd protoreflect.FieldDescriptor
	switch ctx {
	case "w":
		if ki.wrapper == nil {
			panic("harness: kind " + k + " has no wrapper type")
		}
		m = ki.wrapper()
		doc = lit
		fd = m.ProtoReflect().Descriptor().Fields().ByNumber(1)
	case "f":
		m = &testpb.TestAllTypes{}
		doc = []byte(`{"` + ki.single + `":` + string(lit) + `}`)
		fd = m.ProtoReflect().Descriptor().Fields().ByJSONName(ki.single)
	case "r":
		m = &testpb.TestAllTypes{}
		doc = []byte(`{"` + ki.rep + `":[` + string(lit) + `]}`)
		fd = m.ProtoReflect().Descriptor().Fields().ByJSONName(ki.rep)
	case "m":
		m = &testpb.TestAllTypes{}
		doc = []byte(`{"` + ki.mp + `":{"1":` + string(lit) + `}}`)
		fd = m.ProtoReflect().Descriptor().Fields().ByJSONName(ki.mp)
	default:
		panic("harness: unknown ctx " + ctx)
	}
	if fd == nil {
		panic("harness: no field for kind " + k + " ctx " + ctx)
	}
	err := protojson.Unmarshal(doc, m)
	acc := err == nil
	out["acc"] = acc
	var got protoreflect.Value
	has := false
	vfd := fd
	if acc {
		mr := m.ProtoReflect()
		switch {
		case fd.IsList():
			if l := mr.Get(fd).List(); l.Len() == 1 {
				got, has = l.Get(0), true
			}
		case fd.IsMap():
			vfd = fd.MapValue()
			mr.Get(fd).Map().Range(func(_ protoreflect.MapKey, v protoreflect.Value) bool {
				got, has = v, true
				return false
			})
		case ctx == "w":
			got, has = mr.Get(fd), true
		default:
			if mr.Has(fd) {
				got, has = mr.Get(fd), true
			}
		}
	}
	out["has"] = has
	if has {
		scalarOut(vfd, got, out)
	}
	if k == "float" || k == "double" {
		// strconv.ParseFloat is the uninterpreted rounding function of the specification: observe it on the literal
		content := strings.Trim(string(lit), " \t\r\n")
		if strings.HasPrefix(content, `"`) {
			var s string
			if stdjson.Unmarshal([]byte(content), &s) == nil {
				content = s
			} else {
				content = "?"
			}
		}
		pf, perr := strconv.ParseFloat(content, ki.bits)
		switch {
		case has:
			same := false
			if perr == nil {
				if ki.bits == 32 {
					same = math.Float32bits(float32(pf)) == math.Float32bits(float32(got.Float()))
				} else {
					same = math.Float64bits(pf) == math.Float64bits(got.Float())
				}
			}
			out["fx"] = same
		case !acc:
			out["fx"] = perr != nil
		}
	}
	return out
}

func execEnc(k, ctx string, v []byte) core.Case {
	ki, okk := kinds[k]
	if !okk {
		panic("harness: unknown kind " + k)
	}
	var m proto.Message
	var fd protoreflect.FieldDescriptor
	if ctx == "w" {
		if ki.wrapper == nil {
			panic("harness: kind " + k + " has no wrapper type")
		}
		m = ki.wrapper()
		fd = m.ProtoReflect().Descriptor().Fields().ByNumber(1)
	} else {
		m = &testpb.TestAllTypes{}
		fd = m.ProtoReflect().Descriptor().Fields().ByJSONName(ki.single)
	}
	var val protoreflect.Value
	u := func() uint64 { return core.U64(core.B(v)) }
	switch fd.Kind() {
	case protoreflect.Int32Kind, protoreflect.Sint32Kind, protoreflect.Sfixed32Kind:
		val = protoreflect.ValueOfInt32(int32(u()))
	case protoreflect.Int64Kind, protoreflect.Sint64Kind, protoreflect.Sfixed64Kind:
		val = protoreflect.ValueOfInt64(int64(u()))
	case protoreflect.Uint32Kind, protoreflect.Fixed32Kind:
		val = protoreflect.ValueOfUint32(uint32(u()))
	case protoreflect.Uint64Kind, protoreflect.Fixed64Kind:
		val = protoreflect.ValueOfUint64(u())
	case protoreflect.EnumKind:
		val = protoreflect.ValueOfEnum(protoreflect.EnumNumber(int32(u())))
	case protoreflect.BytesKind:
		val = protoreflect.ValueOfBytes(v)
	default:
		panic("harness: enc does not support kind " + k)
	}
	m.ProtoReflect().Set(fd, val)
	b, err := protojson.MarshalOptions{}.Marshal(m)
	if err != nil {
		return core.Case{"j": []any{}, "err": 1}
	}
	if ctx != "w" {
		pre := `{"` + ki.single + `":`
		if strings.HasPrefix(string(b), pre) && strings.HasSuffix(string(b), "}") {
			b = b[len(pre) : len(b)-1]
		}
	}
	return core.Case{"j": core.B(b), "err": 0}
}

// ---------------------------------------------------------------------------------------------- members / nest / fuzz / ints

var boundaryDesc = func() protoreflect.MessageDescriptor {
	nums := []int32{1, 2, 31, 32, 33, 62, 63, 64, 65, 66, 127, 128, 129, 255, 256, 1000, 65535, 65536, 536870911}
	md := &descriptorpb.DescriptorProto{Name: proto.String("Boundary")}
	for _, n := range nums {
		md.Field = append(md.Field, &descriptorpb.FieldDescriptorProto{
			Name: proto.String("f_" + strconv.Itoa(int(n))), JsonName: proto.String("f" + strconv.Itoa(int(n))),
			Number: proto.Int32(n), Type: descriptorpb.FieldDescriptorProto_TYPE_INT32.Enum(),
			Label: descriptorpb.FieldDescriptorProto_LABEL_OPTIONAL.Enum()})
	}
	for i := 0; i <= 66; i++ {
		md.OneofDecl = append(md.OneofDecl, &descriptorpb.OneofDescriptorProto{Name: proto.String("o" + strconv.Itoa(i))})
		for j, p := range []string{"a", "b"} {
			md.Field = append(md.Field, &descriptorpb.FieldDescriptorProto{
				Name: proto.String(p + "_" + strconv.Itoa(i)), JsonName: proto.String(p + strconv.Itoa(i)),
				Number: proto.Int32(int32(2000 + 2*i + j)), Type: descriptorpb.FieldDescriptorProto_TYPE_INT32.Enum(),
				Label: descriptorpb.FieldDescriptorProto_LABEL_OPTIONAL.Enum(), OneofIndex: proto.Int32(int32(i))})
		}
	}
	fdp := &descriptorpb.FileDescriptorProto{
		Name: proto.String("verif/json/boundary.proto"), Package: proto.String("verif.json"), Syntax: proto.String("proto2"),
		MessageType: []*descriptorpb.DescriptorProto{md}}
	fd, err := protodesc.NewFile(fdp, nil)
	if err != nil {
		panic("harness: boundary descriptor: " + err.Error())
	}
	return fd.Messages().Get(0)
}()

func newTarget(t string) proto.Message {
	switch t {
	case "T":
		return &testpb.TestAllTypes{}
	case "T3":
		return &test3pb.TestAllTypes{}
	case "X":
		return &testpb.TestAllExtensions{}
	case "B":
		return dynamicpb.NewMessage(boundaryDesc)
	case "V":
		return &structpb.Value{}
	case "S":
		return &structpb.Struct{}
	case "A":
		return &anypb.Any{}
	case "R":
		return &testpb.TestReservedFields{}
	case "K":
		return &textpb2.KnownTypes{}
	case "G":
		return &textpb2.Nests{}
	}
	panic("harness: unknown target type " + t)
}

func renderMembers(fmtName string, ms []any, sb *strings.Builder) {
	for i, x := range ms {
		m := core.Map(x)
		name, v := core.Str(m["n"]), core.Str(m["v"])
		if fmtName == "json" {
			if i > 0 {
				sb.WriteString(", ")
			}
			sb.WriteString(strconv.Quote(name))
			sb.WriteString(": ")
		} else {
			if i > 0 {
				sb.WriteString(" ")
			}
			sb.WriteString(name)
			if v != "obj" || i%2 == 1 {
				sb.WriteString(":")
			}
			sb.WriteString(" ")
		}
		switch v {
		case "int":
			sb.WriteString("1")
		case "str":
			sb.WriteString(`"x"`)
		case "null":
			sb.WriteString("null")
		case "arr0":
			sb.WriteString("[]")
		case "arr1":
			sb.WriteString("[1]")
		case "obj":
			sb.WriteString("{")
			renderMembers(fmtName, core.List(m["sub"]), sb)
			sb.WriteString("}")
		default:
			panic("harness: unknown member value " + v)
		}
	}
}

func unmarshalAs(fmtName string, doc []byte, m proto.Message, lim int, discard bool) error {
	if fmtName == "json" {
		return protojson.UnmarshalOptions{RecursionLimit: lim, DiscardUnknown: discard, AllowPartial: true}.Unmarshal(doc, m)
	}
	return prototext.UnmarshalOptions{RecursionLimit: lim, DiscardUnknown: discard, AllowPartial: true}.Unmarshal(doc, m)
}

func execMembers(c core.Case) core.Case {
	fmtName := core.Str(c["fmt"])
	var sb strings.Builder
	if fmtName == "json" {
		sb.WriteString("{")
	}
	renderMembers(fmtName, core.List(c["ms"]), &sb)
	if fmtName == "json" {
		sb.WriteString("}")
	}
	m := newTarget(core.Str(c["t"]))
	err := unmarshalAs(fmtName, []byte(sb.String()), m, core.Int(c["lim"]), core.Int(c["du"]) == 1)
	out := core.Case{"ran": true, "acc": err == nil, "cnt": 0, "doc": sb.String()}
	if err == nil {
		n := 0
		m.ProtoReflect().Range(func(protoreflect.FieldDescriptor, protoreflect.Value) bool { n++; return true })
		out["cnt"] = n
	} else {
		out["err"] = err.Error()
	}
	return out
}

// nestDoc renders a document with d message levels (the top-level message is level 1).
func nestDoc(fmtName, via string, d int) (string, string, bool) {
	var sb strings.Builder
	closers := make([]string, 0, d)
	if fmtName == "json" {
		switch via {
		case "value":
			return strings.Repeat("[", d) + strings.Repeat("]", d), "V", false
		case "skip":
			if d <= 1 {
				return "{}", "T", true
			}
			return `{"zz":` + strings.Repeat(`[`, d-1) + strings.Repeat(`]`, d-1) + `}`, "T", true
		}
		sb.WriteString("{")
		for lvl := 1; lvl < d; lvl++ {
			if lvl%2 == 1 { // in TestAllTypes: go to a NestedMessage
				switch via {
				case "one":
					sb.WriteString(`"optionalNestedMessage":{`)
					closers = append(closers, "}")
				case "oneof":
					sb.WriteString(`"oneofNestedMessage":{`)
					closers = append(closers, "}")
				case "list":
					sb.WriteString(`"repeatedNestedMessage":[{`)
					closers = append(closers, "}]")
				case "map":
					sb.WriteString(`"mapStringNestedMessage":{"k":{`)
					closers = append(closers, "}}")
				default:
					panic("harness: unknown via " + via)
				}
			} else {
				sb.WriteString(`"corecursive":{`)
				closers = append(closers, "}")
			}
		}
		for i := len(closers) - 1; i >= 0; i-- {
			sb.WriteString(closers[i])
		}
		sb.WriteString("}")
		return sb.String(), "T", false
	}
	if via == "skip" {
		return strings.Repeat("zz{", d-1) + strings.Repeat("}", d-1), "T", true
	}
	for lvl := 1; lvl < d; lvl++ {
		if lvl%2 == 1 {
			switch via {
			case "one":
				sb.WriteString("optional_nested_message{")
				closers = append(closers, "}")
			case "oneof":
				sb.WriteString("oneof_nested_message{")
				closers = append(closers, "}")
			case "list":
				sb.WriteString("repeated_nested_message{")
				closers = append(closers, "}")
			case "map":
				sb.WriteString(`map_string_nested_message{key:"k" value{`)
				closers = append(closers, "}}")
			default:
				panic("harness: unknown via " + via)
			}
		} else {
			sb.WriteString("corecursive{")
			closers = append(closers, "}")
		}
	}
	for i := len(closers) - 1; i >= 0; i-- {
		sb.WriteString(closers[i])
	}
	return sb.String(), "T", false
}

func execNest(c core.Case) core.Case {
	fmtName, via, d, lim := core.Str(c["fmt"]), core.Str(c["via"]), core.Int(c["d"]), core.Int(c["lim"])
	doc, t, discard := nestDoc(fmtName, via, d)
	err := unmarshalAs(fmtName, []byte(doc), newTarget(t), lim, discard)
	out := core.Case{"ran": true, "acc": err == nil}
	if err != nil {
		e := err.Error()
		if len(e) > 200 {
			e = e[:200]
		}
		out["err"] = e
	}
	return out
}

func execFuzz(c core.Case) core.Case {
	fmtName := core.Str(c["fmt"])
	s := core.Bytes(c["s"])
	m := newTarget(core.Str(c["t"]))
	err := unmarshalAs(fmtName, s, m, core.Int(c["lim"]), core.Int(c["du"]) == 1)
	return core.Case{"ran": true, "acc": err == nil}
}

func execInts(steps []any) core.Case {
	var x set.Ints
	obs := []any{}
	for _, s := range steps {
		m := core.Map(s)
		n := core.U64(m["n"])
		switch core.Str(m["o"]) {
		case "set":
			x.Set(n)
			obs = append(obs, 0)
		case "clear":
			x.Clear(n)
			obs = append(obs, 0)
		case "has":
			if x.Has(n) {
				obs = append(obs, 1)
			} else {
				obs = append(obs, 0)
			}
		case "len":
			obs = append(obs, x.Len())
		default:
			panic("harness: unknown ints op")
		}
	}
	return core.Case{"obs": obs}
}
