// Package mset links the MessageSet corpus into the harness (C47).  It only makes sense in a build with
// -tags protolegacy: without it protobuf-go refuses the MessageSet wire format.
package mset

import (
	_ "google.golang.org/protobuf/internal/testprotos/messageset/messagesetpb"
	_ "google.golang.org/protobuf/internal/testprotos/messageset/messagesetpb/messagesetpb_hybrid"
	_ "google.golang.org/protobuf/internal/testprotos/messageset/messagesetpb/messagesetpb_opaque"
	_ "google.golang.org/protobuf/internal/testprotos/messageset/msetextpb"
	_ "google.golang.org/protobuf/internal/testprotos/messageset/msetextpb/msetextpb_hybrid"
	_ "google.golang.org/protobuf/internal/testprotos/messageset/msetextpb/msetextpb_opaque"
	_ "google.golang.org/protobuf/internal/verifh/msg"
)
