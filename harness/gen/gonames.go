// Package gen holds the harness modules of the code-generation family:
//
//	gonames  (C42)  strs.GoCamelCase / GoSanitized / JSONCamelCase / JSONSnakeCase, protojson FieldMask acceptance,
//	                and the identifiers protoc-gen-go declares for one message (read back from the emitted Go file)
//	gen      (C40)  protoc-gen-go run as a library on CodeGeneratorRequests, repeatedly / permuted / in fresh processes
//	gencomp  (C41)  schema -> protoc-gen-go -> gofmt -> go build -> generated self-test binary
//
// Text crosses the JSON boundary as arrays of rune values (raw non-UTF-8 bytes as negative numbers).
package gen

import (
	"fmt"
	"go/ast"
	"go/parser"
	"go/token"
	"math/rand/v2"
	"sort"
	"strings"
	"unicode"
	"unicode/utf8"

	"google.golang.org/protobuf/cmd/protoc-gen-go/internal_gengo"
	"google.golang.org/protobuf/compiler/protogen"
	"google.golang.org/protobuf/encoding/protojson"
	"google.golang.org/protobuf/internal/strs"
	"google.golang.org/protobuf/internal/verifh/core"
	"google.golang.org/protobuf/proto"
	"google.golang.org/protobuf/types/descriptorpb"
	"google.golang.org/protobuf/types/known/fieldmaskpb"
	"google.golang.org/protobuf/types/pluginpb"
)

func init() {
	core.Register(&core.Module{Name: "gonames", Exec: namesExec, Gen: namesGen})
}

// ---- text <-> rune arrays

func text(v any) string {
	var b []byte
	for _, x := range core.List(v) {
		r := core.Int(x)
		if r < 0 {
			b = append(b, byte(-r)) // raw byte (invalid UTF-8 on purpose)
		} else {
			b = utf8.AppendRune(b, rune(r))
		}
	}
	return string(b)
}

func runes(s string) []any {
	out := []any{}
	for i := 0; i < len(s); {
		r, n := utf8.DecodeRuneInString(s[i:])
		if r == utf8.RuneError && n == 1 {
			out = append(out, -int(s[i]))
		} else {
			out = append(out, int(r))
		}
		i += n
	}
	return out
}

// class of a rune by Go's Unicode tables: 1 letter (L*), 2 decimal digit (Nd), 0 anything else.
// The specification takes this classification as given for non-ASCII runes (uninterpreted relation)
// and defines it itself for ASCII.
func runeClass(r int) int {
	switch {
	case r < 0:
		return 0
	case unicode.IsLetter(rune(r)):
		return 1
	case unicode.IsDigit(rune(r)):
		return 2
	}
	return 0
}

func classes(s string) []any {
	out := []any{}
	for _, x := range runes(s) {
		out = append(out, runeClass(x.(int)))
	}
	return out
}

func namesExec(c core.Case) core.Case {
	out := core.Case{"ran": true}
	switch op := core.Str(c["op"]); op {
	case "camel":
		r := strs.GoCamelCase(text(c["s"]))
		out["r"] = runes(r)
		out["ident"] = token.IsIdentifier(r)
		out["exported"] = token.IsExported(r)
	case "sanitize":
		in := text(c["s"])
		// the case carries the Unicode class of every input rune (an input of the specification); it must be Go's
		clsok := len(core.List(c["cls"])) == len(core.List(c["s"]))
		for i, k := range classes(in) {
			clsok = clsok && i < len(core.List(c["cls"])) && core.Int(core.List(c["cls"])[i]) == k.(int)
		}
		out["clsok"] = clsok
		r := strs.GoSanitized(in)
		out["r"] = runes(r)
		out["rcls"] = classes(r)
		out["ident"] = token.IsIdentifier(r) // false for keywords as well
		out["keyword"] = token.IsKeyword(r)
	case "fieldmask":
		s := text(c["s"])
		cc := strs.JSONCamelCase(s)
		out["camel"] = runes(cc)
		out["snake"] = runes(strs.JSONSnakeCase(cc))
		b, err := protojson.Marshal(&fieldmaskpb.FieldMask{Paths: []string{s}})
		out["acc"] = err == nil
		out["json"], out["back"], out["backok"] = []any{}, []any{}, false
		if err == nil {
			js := string(b)
			out["json"] = runes(strings.Trim(js, `"`))
			var m fieldmaskpb.FieldMask
			if err := protojson.Unmarshal(b, &m); err == nil && len(m.Paths) == 1 {
				out["backok"] = true
				out["back"] = runes(m.Paths[0])
			}
		}
	case "msgnames":
		return msgNames(c)
	default:
		panic("harness: unknown gonames op " + op)
	}
	return out
}

// ---- msgnames: one message M described by the case, generated at one API level; the declared identifiers are read
// back from the emitted Go source with go/parser (never from protogen's data structures alone).
//
//	fields: [{n: name, mem: bool (member of the oneof), rep: bool (repeated), dflt: bool (explicit default)}]   field number = position
//	oname:  name of the one oneof (used iff some field has mem), nested: [names of nested messages], enums: [names of nested enums]
//	nfields: per nested message the names of its fields (optional int32 with an explicit default; absent: none)
//	evals:   per nested enum the names of its values (absent or empty: the single value ZZ_VALUE_<k>)
//	exts:    names of extension fields declared inside M (they extend a top-level message ZZBase that exists only then)
//	tenum:   [] or [{n: name, vals: [value names]}]: a top-level enum next to M
func msgFile(c core.Case) *descriptorpb.FileDescriptorProto {
	m := &descriptorpb.DescriptorProto{Name: proto.String("M")}
	hasOneof := false
	for i, f := range core.List(c["fields"]) {
		fm := core.Map(f)
		fd := &descriptorpb.FieldDescriptorProto{
			Name:   proto.String(text(fm["n"])),
			Number: proto.Int32(int32(i + 1)),
			Type:   descriptorpb.FieldDescriptorProto_TYPE_INT32.Enum(),
			Label:  descriptorpb.FieldDescriptorProto_LABEL_OPTIONAL.Enum(),
		}
		if core.Bool(fm["rep"]) {
			fd.Label = descriptorpb.FieldDescriptorProto_LABEL_REPEATED.Enum()
		}
		if core.Bool(fm["mem"]) {
			fd.OneofIndex = proto.Int32(0)
			hasOneof = true
		}
		if core.Bool(fm["dflt"]) {
			fd.DefaultValue = proto.String("7")
		}
		m.Field = append(m.Field, fd)
	}
	if hasOneof {
		m.OneofDecl = append(m.OneofDecl, &descriptorpb.OneofDescriptorProto{Name: proto.String(text(c["oname"]))})
	}
	nfields, evals := core.List(c["nfields"]), core.List(c["evals"])
	for k, n := range core.List(c["nested"]) {
		nm := &descriptorpb.DescriptorProto{Name: proto.String(text(n))}
		if k < len(nfields) {
			for j, fn := range core.List(nfields[k]) {
				nm.Field = append(nm.Field, &descriptorpb.FieldDescriptorProto{Name: proto.String(text(fn)), Number: proto.Int32(int32(j + 1)),
					Type: descriptorpb.FieldDescriptorProto_TYPE_INT32.Enum(), Label: descriptorpb.FieldDescriptorProto_LABEL_OPTIONAL.Enum(),
					DefaultValue: proto.String("7")})
			}
		}
		m.NestedType = append(m.NestedType, nm)
	}
	for i, n := range core.List(c["enums"]) {
		ed := &descriptorpb.EnumDescriptorProto{Name: proto.String(text(n))}
		if i < len(evals) {
			for j, vn := range core.List(evals[i]) {
				ed.Value = append(ed.Value, &descriptorpb.EnumValueDescriptorProto{Name: proto.String(text(vn)), Number: proto.Int32(int32(j))})
			}
		}
		if len(ed.Value) == 0 {
			ed.Value = []*descriptorpb.EnumValueDescriptorProto{{Name: proto.String(fmt.Sprintf("ZZ_VALUE_%d", i)), Number: proto.Int32(0)}}
		}
		m.EnumType = append(m.EnumType, ed)
	}
	fd := &descriptorpb.FileDescriptorProto{
		Name:        proto.String("t.proto"),
		Package:     proto.String("p"),
		Syntax:      proto.String("proto2"),
		Options:     &descriptorpb.FileOptions{GoPackage: proto.String("example.com/p;p")},
		MessageType: []*descriptorpb.DescriptorProto{m},
	}
	for k, x := range core.List(c["exts"]) {
		if k == 0 {
			fd.MessageType = append(fd.MessageType, &descriptorpb.DescriptorProto{Name: proto.String("ZZBase"),
				ExtensionRange: []*descriptorpb.DescriptorProto_ExtensionRange{{Start: proto.Int32(1000), End: proto.Int32(2000)}}})
		}
		m.Extension = append(m.Extension, &descriptorpb.FieldDescriptorProto{Name: proto.String(text(x)), Number: proto.Int32(int32(1000 + k)),
			Type: descriptorpb.FieldDescriptorProto_TYPE_INT32.Enum(), Label: descriptorpb.FieldDescriptorProto_LABEL_OPTIONAL.Enum(),
			Extendee: proto.String(".p.ZZBase")})
	}
	for _, te := range core.List(c["tenum"]) {
		ed := &descriptorpb.EnumDescriptorProto{Name: proto.String(text(core.Map(te)["n"]))}
		for j, vn := range core.List(core.Map(te)["vals"]) {
			ed.Value = append(ed.Value, &descriptorpb.EnumValueDescriptorProto{Name: proto.String(text(vn)), Number: proto.Int32(int32(j))})
		}
		fd.EnumType = append(fd.EnumType, ed)
	}
	return fd
}

func apiParam(level string) string {
	switch level {
	case "open":
		return "default_api_level=API_OPEN"
	case "hybrid":
		return "default_api_level=API_HYBRID"
	case "opaque":
		return "default_api_level=API_OPAQUE"
	}
	panic("harness: unknown API level " + level)
}

// runGenerator runs protoc-gen-go's plugin function as a library.
func runGenerator(req *pluginpb.CodeGeneratorRequest) (*pluginpb.CodeGeneratorResponse, error) {
	gen, err := protogen.Options{}.New(req)
	if err != nil {
		return nil, err
	}
	for _, f := range gen.Files {
		if f.Generate {
			internal_gengo.GenerateFile(gen, f)
		}
	}
	gen.SupportedFeatures = internal_gengo.SupportedFeatures
	gen.SupportedEditionsMinimum = internal_gengo.SupportedEditionsMinimum
	gen.SupportedEditionsMaximum = internal_gengo.SupportedEditionsMaximum
	return gen.Response(), nil
}

type declared struct {
	members map[string][]string // type name -> struct fields and methods (with repetitions)
	pkg     []string            // package-level identifiers (with repetitions)
}

func declaredNames(src string) (*declared, error) {
	fset := token.NewFileSet()
	f, err := parser.ParseFile(fset, "gen.pb.go", src, parser.SkipObjectResolution)
	if err != nil {
		return nil, err
	}
	d := &declared{members: map[string][]string{}}
	for _, decl := range f.Decls {
		switch decl := decl.(type) {
		case *ast.GenDecl:
			for _, sp := range decl.Specs {
				switch sp := sp.(type) {
				case *ast.TypeSpec:
					d.pkg = append(d.pkg, sp.Name.Name)
					if st, ok := sp.Type.(*ast.StructType); ok {
						for _, fl := range st.Fields.List {
							for _, n := range fl.Names {
								if n.Name != "_" {
									d.members[sp.Name.Name] = append(d.members[sp.Name.Name], n.Name)
								}
							}
						}
					}
				case *ast.ValueSpec:
					for _, n := range sp.Names {
						if n.Name != "_" {
							d.pkg = append(d.pkg, n.Name)
						}
					}
				}
			}
		case *ast.FuncDecl:
			if decl.Recv == nil {
				if decl.Name.Name != "init" && decl.Name.Name != "_" {
					d.pkg = append(d.pkg, decl.Name.Name)
				}
				continue
			}
			t := decl.Recv.List[0].Type
			if s, ok := t.(*ast.StarExpr); ok {
				t = s.X
			}
			if id, ok := t.(*ast.Ident); ok {
				d.members[id.Name] = append(d.members[id.Name], decl.Name.Name)
			}
		}
	}
	return d, nil
}

func dupsOf(prefix string, names []string) []string {
	cnt := map[string]int{}
	for _, n := range names {
		cnt[n]++
	}
	var d []string
	for n, k := range cnt {
		if k > 1 {
			d = append(d, prefix+n)
		}
	}
	sort.Strings(d)
	return d
}

func runeLists(names []string) []any {
	s := append([]string(nil), names...)
	sort.Strings(s)
	out := []any{}
	for _, n := range s {
		out = append(out, runes(n))
	}
	return out
}

func msgNames(c core.Case) core.Case {
	out := core.Case{"ran": true}
	fd := msgFile(c)
	req := &pluginpb.CodeGeneratorRequest{
		FileToGenerate: []string{"t.proto"},
		Parameter:      proto.String(apiParam(core.Str(c["level"]))),
		ProtoFile:      []*descriptorpb.FileDescriptorProto{fd},
	}
	resp, err := runGenerator(req)
	if err != nil {
		// the schema itself was rejected: a harness/generator-of-cases problem, never a naming verdict
		panic("harness: msgnames schema rejected: " + err.Error())
	}
	if resp.Error != nil {
		out["generr"] = *resp.Error
		out["distinct"] = false
		return out
	}
	d, err := declaredNames(resp.File[0].GetContent())
	if err != nil {
		out["generr"] = err.Error()
		out["distinct"] = false
		return out
	}
	out["generr"] = ""
	out["members"] = runeLists(d.members["M"])
	out["builder"] = runeLists(d.members["M_builder"])
	out["pkg"] = runeLists(d.pkg)
	var dups []string
	dups = append(dups, dupsOf("M.", d.members["M"])...)
	dups = append(dups, dupsOf("M_builder.", d.members["M_builder"])...)
	dups = append(dups, dupsOf("pkg.", d.pkg)...)
	ds := []any{}
	for _, x := range dups {
		ds = append(ds, x)
	}
	out["dups"] = ds
	out["distinct"] = len(dups) == 0
	return out
}

// ---- seeded random cases (C->S)

var goKeywords = []string{"break", "case", "chan", "const", "continue", "default", "defer", "else", "fallthrough", "for", "func",
	"go", "goto", "if", "import", "interface", "map", "package", "range", "return", "select", "struct", "switch", "type", "var"}

var sanitizeRunes = []rune{'a', 'g', 'o', 'i', 'f', 'Z', '_', '0', '9', '-', ' ', '.', '/', 0xdf, 0xe9, 0x4e16, 0x754c, 0x0663, 0x0967, 0xb2, 0x2167,
	0x2603, 0x1f600, 0x0301, 0x203f, 0xfffd, 0x10ffff, 0x1c5, 0x2b0}

func randSanitizeInput(r *rand.Rand) []any {
	switch r.IntN(10) {
	case 0: // a keyword, possibly damaged
		k := goKeywords[r.IntN(len(goKeywords))]
		switch r.IntN(4) {
		case 0:
			k = k[:len(k)-1]
		case 1:
			k += string(sanitizeRunes[r.IntN(len(sanitizeRunes))])
		case 2:
			k = strings.ToUpper(k[:1]) + k[1:]
		}
		return runes(k)
	}
	n := r.IntN(9)
	out := []any{}
	for i := 0; i < n; i++ {
		switch r.IntN(8) {
		case 0:
			out = append(out, -(128 + r.IntN(128))) // raw byte
		case 1, 2:
			x := r.IntN(0x110000)
			if x >= 0xd800 && x < 0xe000 {
				x = 0xfffd
			}
			out = append(out, x)
		case 3:
			out = append(out, 32+r.IntN(95))
		default:
			out = append(out, int(sanitizeRunes[r.IntN(len(sanitizeRunes))]))
		}
	}
	return out
}

var identChars = "abzABZ_019."

func randIdent(r *rand.Rand, dots bool) []any {
	n := 1 + r.IntN(10)
	out := []any{}
	for i := 0; i < n; i++ {
		ch := identChars[r.IntN(len(identChars))]
		if ch == '.' && !dots {
			ch = '_'
		}
		out = append(out, int(ch))
	}
	return out
}

var nameVocab = []string{"foo", "Foo", "_foo", "X_foo", "foo_", "foo_1", "foo_2", "get_foo", "GetFoo", "set_foo", "has_foo", "clear_foo",
	"which_foo", "build", "reset", "string", "descriptor", "proto_reflect", "proto_message", "bar", "get_bar", "Bar", "foo__", "get_get_foo"}

var nestedFieldVocab = []string{"foo", "bar", "foo__foo", "x", "reset"}
var valueVocab = []string{"FOO", "Foo", "foo", "builder", "Foo_name", "Bar_value", "Foo_case", "Foo_builder", "Bar_not_set_case", "XFoo"}

var topEnumVocab = [][2]string{{"E", "M_Foo"}, {"E", "M_Bar"}, {"File", "t_proto"}, {"Default", "M_Foo"}, {"Bar", "Foo"}, {"e", "X"}}

func inEvals(c core.Case, name string) bool {
	for _, vs := range core.List(c["evals"]) {
		for _, v := range core.List(vs) {
			if text(v) == name {
				return true
			}
		}
	}
	return false
}

// usedIn: is the name already declared in M's scope (field, oneof, nested message or enum)?
func usedIn(c core.Case, name string) bool {
	for _, f := range core.List(c["fields"]) {
		if text(core.Map(f)["n"]) == name {
			return true
		}
	}
	for _, k := range []string{"nested", "enums"} {
		for _, n := range core.List(c[k]) {
			if text(n) == name {
				return true
			}
		}
	}
	return text(c["oname"]) == name
}

func namesGen(r *rand.Rand, n int, emit func(core.Case)) {
	for i := 0; i < n; i++ {
		switch k := r.IntN(20); {
		case k < 6:
			emit(core.Case{"op": "camel", "s": randIdent(r, true)})
		case k < 12:
			// canonical form: adjacent raw bytes may happen to form a valid UTF-8 sequence
			s := runes(text(randSanitizeInput(r)))
			emit(core.Case{"op": "sanitize", "s": s, "cls": classes(text(s))})
		case k < 17:
			emit(core.Case{"op": "fieldmask", "s": randIdent(r, true)})
		default:
			emit(randMsgCase(r))
		}
	}
}

func randMsgCase(r *rand.Rand) core.Case {
	perm := r.Perm(len(nameVocab))
	take := func() string { s := nameVocab[perm[0]]; perm = perm[1:]; return s }
	nf := 1 + r.IntN(5)
	fields := []any{}
	// the members of the oneof must be declared consecutively (protodesc enforces it)
	memFrom, memTo := -1, -1
	if r.IntN(2) == 0 {
		memFrom = r.IntN(nf)
		memTo = memFrom + r.IntN(nf-memFrom)
	}
	anyMem := memFrom >= 0
	for i := 0; i < nf; i++ {
		f := core.Case{"n": runes(take()), "mem": i >= memFrom && i <= memTo, "rep": false, "dflt": false}
		if !core.Bool(f["mem"]) && r.IntN(4) == 0 {
			f["rep"] = true
		} else if r.IntN(3) == 0 {
			f["dflt"] = true
		}
		fields = append(fields, f)
	}
	c := core.Case{"op": "msgnames", "level": []string{"open", "hybrid", "opaque"}[r.IntN(3)], "fields": fields,
		"oname": []any{}, "nested": []any{}, "enums": []any{}, "nfields": []any{}, "evals": []any{}, "exts": []any{}, "tenum": []any{}}
	if anyMem {
		c["oname"] = runes(take())
	}
	if r.IntN(3) == 0 {
		c["nested"] = []any{runes(take())}
		nf := []any{}
		if r.IntN(2) == 0 { // the nested message's fields live in a scope of their own
			nf = append(nf, runes(nestedFieldVocab[r.IntN(len(nestedFieldVocab))]))
		}
		c["nfields"] = []any{nf}
	}
	if r.IntN(4) == 0 {
		c["enums"] = []any{runes(take())}
		ev := []any{}
		if r.IntN(2) == 0 { // values share M's scope: a name that is in use would be rejected by protoc
			if v := valueVocab[r.IntN(len(valueVocab))]; !usedIn(c, v) {
				ev = append(ev, runes(v))
			}
		}
		c["evals"] = []any{ev}
	}
	if r.IntN(6) == 0 { // an extension declared in M (M's scope)
		if x := []string{"foo", "bar", "x"}[r.IntN(3)]; !usedIn(c, x) && !inEvals(c, x) {
			c["exts"] = []any{runes(x)}
		}
	}
	if r.IntN(6) == 0 { // a top-level enum (package scope: M and ZZBase are taken)
		te := topEnumVocab[r.IntN(len(topEnumVocab))]
		c["tenum"] = []any{core.Case{"n": runes(te[0]), "vals": []any{runes(te[1])}}}
	}
	return c
}
