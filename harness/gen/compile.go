package gen

import (
	"bytes"
	"encoding/json"
	"fmt"
	"go/format"
	"math/rand/v2"
	"os"
	"os/exec"
	"path/filepath"
	"regexp"
	"sort"
	"strings"

	"google.golang.org/protobuf/internal/verifh/core"
	"google.golang.org/protobuf/proto"
	"google.golang.org/protobuf/reflect/protodesc"
	"google.golang.org/protobuf/reflect/protoreflect"
	"google.golang.org/protobuf/reflect/protoregistry"
	"google.golang.org/protobuf/types/descriptorpb"
	"google.golang.org/protobuf/types/pluginpb"
)

// Module "gencomp" (C41): schema -> protoc-gen-go (library) -> gofmt -> go build (scratch module outside the
// repository, `replace google.golang.org/protobuf => <repo>`) -> generated self-test binary.
//
//	{op: "shapes",   syn, level, shapes: [{syn, card, kind, cont, packed, lazy, dflt}]}   one message, one field per shape
//	{op: "msgnames", level, fields, oname, nested, enums}                                 a GoNamesMsg declaration
//	{op: "schema",   seed, level}                                                         RandSchema(seed)
//	{op: "services", level, methods: [{in, out, cs, ss, svc}]}                            two services (GenService.tla)
//	{op: "batch",    items: [item (+ exp)]}  ->  {results: [out (+ diff)]}                one build for many items
//
// out of an item: generated, gofmt, compiles, descriptor, wire, json, reflect (booleans), presence / packed (shapes),
// methods (services: per method {in, out, cs, ss} as the REGISTERED descriptor reports them),
// messages, values (how much was compared), errors (first compiler / generator messages), dups (identifiers the
// compiler reports as declared twice, "M.X" or "pkg.X").
func init() {
	core.Register(&core.Module{Name: "gencomp", Exec: compExec, Gen: compGen, Sequential: true})
}

func compGen(r *rand.Rand, n int, emit func(core.Case)) {
	for i := 0; i < n; i++ {
		emit(core.Case{"op": "schema", "seed": 1 + r.IntN(1<<24), "level": []string{"open", "hybrid", "opaque"}[i%3]})
	}
}

func compExec(c core.Case) core.Case {
	if core.Str(c["op"]) == "batch" {
		var items []core.Case
		for _, it := range core.List(c["items"]) {
			items = append(items, core.Case(core.Map(it)))
		}
		outs := runBatch(items)
		res := []any{}
		for i, o := range outs {
			if exp, ok := items[i]["exp"]; ok {
				if d := core.Diff(exp, o); len(d) > 0 {
					ds := []any{}
					for _, x := range d {
						ds = append(ds, x)
					}
					o["diff"] = ds
				}
			}
			res = append(res, o)
		}
		return core.Case{"results": res}
	}
	return runBatch([]core.Case{c})[0]
}

type job struct {
	c      core.Case
	id     string
	fd     *descriptorpb.FileDescriptorProto
	out    core.Case
	fields []string // shapes: locators of the fields, in shape order
	meths  []string // services: full names of the methods, in item order
	ok     bool     // still in the pipeline
}

var goEnv = []string{"GOFLAGS=-mod=mod", "GOPROXY=off", "GOSUMDB=off", "GOTOOLCHAIN=local", "GONOSUMCHECK=1", "GONOSUMDB=*"}

func repoRoot() string {
	if r := os.Getenv("VERIF_REPO"); r != "" {
		return r
	}
	return "/repo"
}

func runBatch(items []core.Case) []core.Case {
	root, err := os.MkdirTemp("", "verif-gencomp-")
	if err != nil {
		panic(err)
	}
	if os.Getenv("VERIF_KEEP") == "" {
		defer os.RemoveAll(root)
	}
	must := func(err error) {
		if err != nil {
			panic("harness: " + err.Error())
		}
	}
	must(os.WriteFile(filepath.Join(root, "go.mod"), []byte("module verif.test/gen\n\ngo 1.21\n\nrequire google.golang.org/protobuf v1.36.0\n\nreplace google.golang.org/protobuf => "+repoRoot()+"\n"), 0o644))
	if sum, err := os.ReadFile(filepath.Join(repoRoot(), "go.sum")); err == nil {
		must(os.WriteFile(filepath.Join(root, "go.sum"), sum, 0o644))
	}
	jobs := make([]*job, len(items))
	for i, c := range items {
		j := &job{c: c, id: fmt.Sprintf("i%d", i), ok: true}
		j.out = core.Case{"generated": false, "gofmt": false, "compiles": false, "descriptor": false, "wire": false, "json": false,
			"reflect": false, "messages": 0, "values": 0, "errors": []any{}, "dups": []any{}}
		jobs[i] = j
		level := core.Str(c["level"])
		switch core.Str(c["op"]) {
		case "shapes":
			j.fd, j.fields = shapesFile(c, j.id)
			j.out["presence"], j.out["packed"] = []any{}, []any{}
		case "msgnames":
			j.fd = msgFile(c)
			j.fd.Name = proto.String("verif/" + j.id + ".proto")
			j.fd.Package = proto.String("verif." + j.id)
		case "schema":
			j.fd = RandSchema(uint64(core.Int(c["seed"])), "_"+j.id)
		case "services":
			j.fd, j.meths = servicesFile(c, j.id)
			j.out["methods"] = []any{}
		default:
			panic("harness: unknown gencomp op " + core.Str(c["op"]))
		}
		j.fd.Options.GoPackage = proto.String("verif.test/gen/" + j.id + ";" + j.id)
		// 1. generate
		req := &pluginpb.CodeGeneratorRequest{FileToGenerate: []string{j.fd.GetName()}, Parameter: proto.String(apiParam(level))}
		for _, dep := range closureOf(j.fd.Dependency) {
			req.ProtoFile = append(req.ProtoFile, dep)
		}
		req.ProtoFile = append(req.ProtoFile, j.fd)
		resp, err := runGenerator(req)
		if err != nil || resp.Error != nil {
			msg := resp.GetError()
			if err != nil {
				msg = err.Error()
			}
			j.fail("generator: " + firstLine(msg))
			continue
		}
		j.out["generated"] = true
		// 2. gofmt
		clean := true
		for _, f := range resp.File {
			src := []byte(f.GetContent())
			fm, err := format.Source(src)
			if err != nil || !bytes.Equal(fm, src) {
				clean = false
				j.note("not gofmt-clean: " + f.GetName())
			}
			p := filepath.Join(root, strings.TrimPrefix(f.GetName(), "verif.test/gen/"))
			must(os.MkdirAll(filepath.Dir(p), 0o755))
			must(os.WriteFile(p, src, 0o644))
		}
		j.out["gofmt"] = clean
		want := proto.Clone(j.fd).(*descriptorpb.FileDescriptorProto)
		want.SourceCodeInfo = nil
		wb, err := proto.MarshalOptions{Deterministic: true}.Marshal(want)
		must(err)
		must(os.WriteFile(filepath.Join(root, j.id+".binpb"), wb, 0o644))
	}
	// 3. compile all packages at once; attribute the errors to packages
	var pkgs []string
	for _, j := range jobs {
		if j.ok {
			pkgs = append(pkgs, "./"+j.id)
		}
	}
	if len(pkgs) > 0 {
		outb, _ := goCmd(root, append([]string{"build"}, pkgs...)...)
		failed := map[string][]string{}
		re := regexp.MustCompile(`^(i\d+)/[^:]+:\d+:\d+: (.*)$`)
		for _, line := range strings.Split(string(outb), "\n") {
			if m := re.FindStringSubmatch(strings.TrimSpace(line)); m != nil {
				failed[m[1]] = append(failed[m[1]], m[2])
			} else if strings.Contains(line, "go: ") || strings.Contains(line, "cannot find") {
				panic("harness: go build in the scratch module failed for an infrastructure reason:\n" + string(outb))
			}
		}
		for _, j := range jobs {
			if !j.ok {
				continue
			}
			if errs, bad := failed[j.id]; bad {
				j.ok = false
				for k, e := range errs {
					if k < 6 {
						j.note("compile: " + e)
					}
				}
				j.out["dups"] = redeclared(errs)
			} else {
				j.out["compiles"] = true
			}
		}
	}
	// 3b. (thorough tier) the _protoopaque twin of every hybrid package must compile as well
	if os.Getenv("VERIF_GEN_TWIN") != "" {
		var hy []string
		for _, j := range jobs {
			if j.ok && core.Str(j.c["level"]) == "hybrid" {
				hy = append(hy, "./"+j.id)
			}
		}
		if len(hy) > 0 {
			outb, _ := goCmd(root, append([]string{"build", "-tags", "protoopaque"}, hy...)...)
			re := regexp.MustCompile(`^(i\d+)/[^:]+:\d+:\d+: (.*)$`)
			for _, line := range strings.Split(string(outb), "\n") {
				if m := re.FindStringSubmatch(strings.TrimSpace(line)); m != nil {
					for _, j := range jobs {
						if j.id == m[1] && j.ok {
							j.ok = false
							j.out["compiles"] = false
							j.note("compile (-tags protoopaque): " + m[2])
						}
					}
				}
			}
		}
	}
	// 4. link and run the self-test over the packages that compile
	var run []*job
	for _, j := range jobs {
		if j.ok {
			run = append(run, j)
		}
	}
	if len(run) > 0 {
		dir := filepath.Join(root, "cmd", "selftest")
		must(os.MkdirAll(dir, 0o755))
		var imp strings.Builder
		imp.WriteString("package main\n\nimport (\n")
		var manifest []map[string]any
		for _, j := range run {
			fmt.Fprintf(&imp, "\t_ \"verif.test/gen/%s\"\n", j.id)
			values := 12
			if core.Str(j.c["op"]) == "schema" {
				values = 40
			}
			manifest = append(manifest, map[string]any{"id": j.id, "path": j.fd.GetName(), "expect": filepath.Join(root, j.id+".binpb"),
				"fields": j.fields, "methods": j.meths, "values": values, "seed": 1 + seedOf(j.c)})
		}
		imp.WriteString(")\n")
		must(os.WriteFile(filepath.Join(dir, "imports.go"), []byte(imp.String()), 0o644))
		must(os.WriteFile(filepath.Join(dir, "main.go"), []byte(selftestSource), 0o644))
		mb, _ := json.Marshal(manifest)
		must(os.WriteFile(filepath.Join(root, "manifest.json"), mb, 0o644))
		bin := filepath.Join(root, "selftest.bin")
		if outb, err := goCmd(root, "build", "-o", bin, "./cmd/selftest"); err != nil {
			panic("harness: the self-test binary does not build:\n" + string(outb))
		}
		cmd := exec.Command(bin, filepath.Join(root, "manifest.json"))
		cmd.Env = append(os.Environ(), "GOMAXPROCS=2")
		var stdout, stderr bytes.Buffer
		cmd.Stdout, cmd.Stderr = &stdout, &stderr
		runErr := cmd.Run()
		byID := map[string]map[string]any{}
		dec := json.NewDecoder(&stdout)
		for dec.More() {
			var r map[string]any
			if err := dec.Decode(&r); err != nil {
				break
			}
			byID[core.Str(r["id"])] = r
		}
		for _, j := range run {
			r, ok := byID[j.id]
			if !ok {
				// the binary died (e.g. an init-time panic of a generated package): every package it holds is affected
				j.note("self-test binary failed: " + firstLine(fmt.Sprint(runErr)) + " " + firstLine(lastLines(stderr.String(), 8)))
				continue
			}
			for _, k := range []string{"descriptor", "wire", "json", "reflect", "messages", "values"} {
				j.out[k] = r[k]
			}
			if core.Str(j.c["op"]) == "shapes" {
				j.out["presence"], j.out["packed"] = r["presence"], r["packed"]
			}
			if core.Str(j.c["op"]) == "services" {
				j.out["methods"] = r["methods"]
			}
			for _, n := range core.List(r["notes"]) {
				j.note(core.Str(n))
			}
		}
	}
	outs := make([]core.Case, len(jobs))
	for i, j := range jobs {
		outs[i] = j.out
	}
	return outs
}

func seedOf(c core.Case) int {
	if v, ok := c["seed"]; ok && v != nil {
		return core.Int(v)
	}
	return 0
}

func fileProto(fd protoreflect.FileDescriptor) *descriptorpb.FileDescriptorProto {
	return protodesc.ToFileDescriptorProto(fd)
}

func lastLines(s string, n int) string {
	ls := strings.Split(strings.TrimSpace(s), "\n")
	if len(ls) > n {
		ls = ls[:n]
	}
	return strings.Join(ls, " | ")
}

func (j *job) note(s string) {
	if l := core.List(j.out["errors"]); len(l) < 8 {
		if len(s) > 400 {
			s = s[:400]
		}
		j.out["errors"] = append(l, s)
	}
}

func (j *job) fail(s string) {
	j.ok = false
	j.note(s)
}

// redeclared extracts the identifiers the Go compiler reports as declared twice, in the notation of module gonames:
// "M.X" for fields/methods of type M, "M_builder.X", "pkg.X" for package-level declarations.
func redeclared(errs []string) []any {
	set := map[string]bool{}
	reMethod := regexp.MustCompile(`^method (\w+)\.(\w+) already declared`)
	reFieldMethod := regexp.MustCompile(`^field and method with the same name (\w+)`)
	reDupField := regexp.MustCompile(`^(\w+) redeclared$`)
	rePkg := regexp.MustCompile(`^(\w+) redeclared in this block`)
	for _, e := range errs {
		switch {
		case reMethod.MatchString(e):
			m := reMethod.FindStringSubmatch(e)
			set[m[1]+"."+m[2]] = true
		case reFieldMethod.MatchString(e):
			set["M."+reFieldMethod.FindStringSubmatch(e)[1]] = true
		case rePkg.MatchString(e):
			set["pkg."+rePkg.FindStringSubmatch(e)[1]] = true
		case reDupField.MatchString(e):
			set["field."+reDupField.FindStringSubmatch(e)[1]] = true
		}
	}
	var ks []string
	for k := range set {
		ks = append(ks, k)
	}
	sort.Strings(ks)
	out := []any{}
	for _, k := range ks {
		out = append(out, k)
	}
	return out
}

// goCmd runs the go tool in the scratch module.  Calibration only: files of the repository replaced through
// VERIF_MUTANT ("rel/path.go=/abs/mutant.go,...") are replaced in this build as well.
func goCmd(dir string, args ...string) ([]byte, error) {
	if mut := os.Getenv("VERIF_MUTANT"); mut != "" && args[0] == "build" {
		rep := map[string]string{}
		for _, item := range strings.Split(mut, ",") {
			if kv := strings.SplitN(item, "=", 2); len(kv) == 2 {
				rep[filepath.Join(repoRoot(), kv[0])] = kv[1]
			}
		}
		b, _ := json.Marshal(map[string]any{"Replace": rep})
		ov := filepath.Join(dir, "overlay.json")
		if err := os.WriteFile(ov, b, 0o644); err != nil {
			panic(err)
		}
		args = append([]string{args[0], "-overlay", ov}, args[1:]...)
	}
	cmd := exec.Command("go", args...)
	cmd.Dir = dir
	cmd.Env = append(os.Environ(), goEnv...)
	return cmd.CombinedOutput()
}

// closureOf returns the FileDescriptorProtos of the given registered files and their imports, in topological order.
func closureOf(paths []string) []*descriptorpb.FileDescriptorProto {
	var out []*descriptorpb.FileDescriptorProto
	done := map[string]bool{}
	var visit func(p string)
	visit = func(p string) {
		if done[p] {
			return
		}
		done[p] = true
		fd, err := protoregistry.GlobalFiles.FindFileByPath(p)
		if err != nil {
			panic("harness: dependency " + p + ": " + err.Error())
		}
		fdp := fileProto(fd)
		for _, d := range fdp.Dependency {
			visit(d)
		}
		out = append(out, fdp)
	}
	for _, p := range paths {
		visit(p)
	}
	return out
}

// ---- shapes: one message S with one field per shape (see spec/gen/GenSchema.tla)

var kindType = map[string]T{
	"bool": descriptorpb.FieldDescriptorProto_TYPE_BOOL, "int32": descriptorpb.FieldDescriptorProto_TYPE_INT32, "sint32": descriptorpb.FieldDescriptorProto_TYPE_SINT32,
	"uint32": descriptorpb.FieldDescriptorProto_TYPE_UINT32, "int64": descriptorpb.FieldDescriptorProto_TYPE_INT64, "sint64": descriptorpb.FieldDescriptorProto_TYPE_SINT64,
	"uint64": descriptorpb.FieldDescriptorProto_TYPE_UINT64, "sfixed32": descriptorpb.FieldDescriptorProto_TYPE_SFIXED32, "fixed32": descriptorpb.FieldDescriptorProto_TYPE_FIXED32,
	"float": descriptorpb.FieldDescriptorProto_TYPE_FLOAT, "sfixed64": descriptorpb.FieldDescriptorProto_TYPE_SFIXED64, "fixed64": descriptorpb.FieldDescriptorProto_TYPE_FIXED64,
	"double": descriptorpb.FieldDescriptorProto_TYPE_DOUBLE, "string": descriptorpb.FieldDescriptorProto_TYPE_STRING, "bytes": descriptorpb.FieldDescriptorProto_TYPE_BYTES,
	"enum": descriptorpb.FieldDescriptorProto_TYPE_ENUM, "message": descriptorpb.FieldDescriptorProto_TYPE_MESSAGE, "group": descriptorpb.FieldDescriptorProto_TYPE_GROUP,
}

func shapesFile(c core.Case, id string) (*descriptorpb.FileDescriptorProto, []string) {
	syn := core.Str(c["syn"])
	pkg := "verif." + id
	fd := &descriptorpb.FileDescriptorProto{Name: proto.String("verif/" + id + ".proto"), Package: proto.String(pkg), Options: &descriptorpb.FileOptions{}}
	switch syn {
	case "proto2":
		fd.Syntax = proto.String("proto2")
	case "proto3":
		fd.Syntax = proto.String("proto3")
	case "editions":
		fd.Syntax = proto.String("editions")
		fd.Edition = descriptorpb.Edition_EDITION_2023.Enum()
	default:
		panic("harness: unknown syntax " + syn)
	}
	opt := descriptorpb.FieldDescriptorProto_LABEL_OPTIONAL.Enum()
	fd.EnumType = []*descriptorpb.EnumDescriptorProto{{Name: proto.String("En"), Value: []*descriptorpb.EnumValueDescriptorProto{
		{Name: proto.String("EN_ZERO"), Number: proto.Int32(0)}, {Name: proto.String("EN_ONE"), Number: proto.Int32(1)}}}}
	sub := &descriptorpb.DescriptorProto{Name: proto.String("Sub"), Field: []*descriptorpb.FieldDescriptorProto{
		{Name: proto.String("a"), Number: proto.Int32(1), Label: opt, Type: descriptorpb.FieldDescriptorProto_TYPE_INT32.Enum()}}}
	ext := &descriptorpb.DescriptorProto{Name: proto.String("Ext"), ExtensionRange: []*descriptorpb.DescriptorProto_ExtensionRange{
		{Start: proto.Int32(1000), End: proto.Int32(100000)}}}
	s := &descriptorpb.DescriptorProto{Name: proto.String("S")}
	fd.MessageType = []*descriptorpb.DescriptorProto{sub, s}
	for _, sh := range core.List(c["shapes"]) {
		if core.Str(core.Map(sh)["cont"]) == "ext" {
			fd.MessageType = []*descriptorpb.DescriptorProto{sub, ext, s}
			break
		}
	}
	var locs []string
	prevOneof := false
	for i, sh := range core.List(c["shapes"]) {
		m := core.Map(sh)
		if core.Str(m["syn"]) != syn {
			panic("harness: shape of another syntax in a shapes item")
		}
		card, kind, cont, packed := core.Str(m["card"]), core.Str(m["kind"]), core.Str(m["cont"]), core.Str(m["packed"])
		n := i + 1
		name := fmt.Sprintf("f%d", n)
		f := &descriptorpb.FieldDescriptorProto{Name: proto.String(name), Number: proto.Int32(int32(n)), Label: opt, Type: kindType[kind].Enum()}
		if n >= 19000 {
			panic("harness: too many shapes")
		}
		feat := &descriptorpb.FeatureSet{}
		switch card {
		case "repeated":
			f.Label = descriptorpb.FieldDescriptorProto_LABEL_REPEATED.Enum()
		case "required":
			if syn == "editions" {
				feat.FieldPresence = descriptorpb.FeatureSet_LEGACY_REQUIRED.Enum()
			} else {
				f.Label = descriptorpb.FieldDescriptorProto_LABEL_REQUIRED.Enum()
			}
		case "implicit":
			if syn == "editions" {
				feat.FieldPresence = descriptorpb.FeatureSet_IMPLICIT.Enum()
			}
		case "optional":
			if syn == "proto3" && cont == "plain" && kind != "message" {
				f.Proto3Optional = proto.Bool(true)
			}
		}
		switch kind {
		case "enum":
			f.TypeName = proto.String("." + pkg + ".En")
		case "message":
			f.TypeName = proto.String("." + pkg + ".Sub")
		case "group":
			if syn == "editions" { // a delimited message field
				f.Type = descriptorpb.FieldDescriptorProto_TYPE_MESSAGE.Enum()
				f.TypeName = proto.String("." + pkg + ".Sub")
				feat.MessageEncoding = descriptorpb.FeatureSet_DELIMITED.Enum()
			} else { // group G<n> { optional int32 a = 1; }: the field is named after the group type in lower case
				gm := &descriptorpb.DescriptorProto{Name: proto.String(fmt.Sprintf("G%d", n)), Field: []*descriptorpb.FieldDescriptorProto{
					{Name: proto.String("a"), Number: proto.Int32(1), Label: opt, Type: descriptorpb.FieldDescriptorProto_TYPE_INT32.Enum()}}}
				name = fmt.Sprintf("g%d", n)
				f.Name = proto.String(name)
				if cont == "ext" {
					fd.MessageType = append(fd.MessageType, gm)
					f.TypeName = proto.String("." + pkg + "." + gm.GetName())
				} else {
					s.NestedType = append(s.NestedType, gm)
					f.TypeName = proto.String("." + pkg + ".S." + gm.GetName())
				}
			}
		}
		if packed != "default" {
			if syn == "editions" {
				if packed == "true" {
					feat.RepeatedFieldEncoding = descriptorpb.FeatureSet_PACKED.Enum()
				} else {
					feat.RepeatedFieldEncoding = descriptorpb.FeatureSet_EXPANDED.Enum()
				}
			} else {
				f.Options = &descriptorpb.FieldOptions{Packed: proto.Bool(packed == "true")}
			}
		}
		if core.Bool(m["lazy"]) {
			if f.Options == nil {
				f.Options = &descriptorpb.FieldOptions{}
			}
			f.Options.Lazy = proto.Bool(true)
		}
		if !proto.Equal(feat, &descriptorpb.FeatureSet{}) {
			if f.Options == nil {
				f.Options = &descriptorpb.FieldOptions{}
			}
			f.Options.Features = feat
		}
		if core.Bool(m["dflt"]) {
			switch kind {
			case "bool":
				f.DefaultValue = proto.String("true")
			case "string":
				f.DefaultValue = proto.String("hello")
			case "bytes":
				f.DefaultValue = proto.String("x\\377z")
			case "float", "double":
				f.DefaultValue = proto.String("1.5")
			case "enum":
				f.DefaultValue = proto.String("EN_ONE")
			default:
				f.DefaultValue = proto.String("7")
			}
		}
		switch cont {
		case "ext":
			f.Number = proto.Int32(int32(1000 + n))
			f.Extendee = proto.String("." + pkg + ".Ext")
			fd.Extension = append(fd.Extension, f)
			locs = append(locs, "ext:"+pkg+"."+name)
			prevOneof = false
			continue
		case "oneof":
			if !prevOneof {
				s.OneofDecl = append(s.OneofDecl, &descriptorpb.OneofDescriptorProto{Name: proto.String(fmt.Sprintf("o%d", n))})
			}
			f.OneofIndex = proto.Int32(int32(len(s.OneofDecl) - 1))
		case "map":
			entry := &descriptorpb.DescriptorProto{Name: proto.String(fmt.Sprintf("F%dEntry", n)), Options: &descriptorpb.MessageOptions{MapEntry: proto.Bool(true)},
				Field: []*descriptorpb.FieldDescriptorProto{
					{Name: proto.String("key"), Number: proto.Int32(1), Label: opt, Type: descriptorpb.FieldDescriptorProto_TYPE_STRING.Enum()},
					{Name: proto.String("value"), Number: proto.Int32(2), Label: opt, Type: f.Type, TypeName: f.TypeName}}}
			s.NestedType = append(s.NestedType, entry)
			f.Type = descriptorpb.FieldDescriptorProto_TYPE_MESSAGE.Enum()
			f.TypeName = proto.String("." + pkg + ".S." + entry.GetName())
		}
		prevOneof = cont == "oneof"
		s.Field = append(s.Field, f)
		locs = append(locs, pkg+".S."+name)
	}
	// synthetic oneofs of proto3 optional fields come after the real oneofs
	for _, f := range s.Field {
		if f.GetProto3Optional() {
			f.OneofIndex = proto.Int32(int32(len(s.OneofDecl)))
			s.OneofDecl = append(s.OneofDecl, &descriptorpb.OneofDescriptorProto{Name: proto.String("_" + f.GetName())})
		}
	}
	return fd, locs
}

// ---- services: the file of spec/gen/GenService.tla (MC_GenService!FileOf) with the listed methods
//
//	message Req { optional Inner inner = 1; message Inner { optional int32 a = 1; } }
//	message Resp { optional int32 a = 1; extensions 100 to 199; }
//	extend Resp { optional Req.Inner x = 100; optional int32 y = 101; }
//	service S1 { rpc M<i>(<in>) returns (<out>); ... }  service S2 { ... }      (i = position in the item, from 1)
func servicesFile(c core.Case, id string) (*descriptorpb.FileDescriptorProto, []string) {
	pkg := "verif." + id
	opt := descriptorpb.FieldDescriptorProto_LABEL_OPTIONAL.Enum()
	i32 := descriptorpb.FieldDescriptorProto_TYPE_INT32.Enum()
	msg := descriptorpb.FieldDescriptorProto_TYPE_MESSAGE.Enum()
	typeName := map[string]string{"Req": "." + pkg + ".Req", "Resp": "." + pkg + ".Resp", "Req.Inner": "." + pkg + ".Req.Inner",
		"Empty": ".google.protobuf.Empty"}
	fd := &descriptorpb.FileDescriptorProto{Name: proto.String("verif/" + id + ".proto"), Package: proto.String(pkg), Syntax: proto.String("proto2"),
		Options: &descriptorpb.FileOptions{}, Dependency: []string{"google/protobuf/empty.proto"},
		MessageType: []*descriptorpb.DescriptorProto{
			{Name: proto.String("Req"),
				Field:      []*descriptorpb.FieldDescriptorProto{{Name: proto.String("inner"), Number: proto.Int32(1), Label: opt, Type: msg, TypeName: proto.String(typeName["Req.Inner"])}},
				NestedType: []*descriptorpb.DescriptorProto{{Name: proto.String("Inner"), Field: []*descriptorpb.FieldDescriptorProto{{Name: proto.String("a"), Number: proto.Int32(1), Label: opt, Type: i32}}}}},
			{Name: proto.String("Resp"), Field: []*descriptorpb.FieldDescriptorProto{{Name: proto.String("a"), Number: proto.Int32(1), Label: opt, Type: i32}},
				ExtensionRange: []*descriptorpb.DescriptorProto_ExtensionRange{{Start: proto.Int32(100), End: proto.Int32(200)}}}},
		Extension: []*descriptorpb.FieldDescriptorProto{
			{Name: proto.String("x"), Number: proto.Int32(100), Label: opt, Type: msg, TypeName: proto.String(typeName["Req.Inner"]), Extendee: proto.String(typeName["Resp"])},
			{Name: proto.String("y"), Number: proto.Int32(101), Label: opt, Type: i32, Extendee: proto.String(typeName["Resp"])}},
		Service: []*descriptorpb.ServiceDescriptorProto{{Name: proto.String("S1")}, {Name: proto.String("S2")}}}
	var locs []string
	for i, m := range core.List(c["methods"]) {
		mm := core.Map(m)
		in, out, svc := typeName[core.Str(mm["in"])], typeName[core.Str(mm["out"])], core.Int(mm["svc"])
		if in == "" || out == "" || svc < 1 || svc > 2 {
			panic(fmt.Sprintf("harness: bad method %v", mm))
		}
		md := &descriptorpb.MethodDescriptorProto{Name: proto.String(fmt.Sprintf("M%d", i+1)), InputType: proto.String(in), OutputType: proto.String(out)}
		if core.Bool(mm["cs"]) {
			md.ClientStreaming = proto.Bool(true)
		}
		if core.Bool(mm["ss"]) {
			md.ServerStreaming = proto.Bool(true)
		}
		fd.Service[svc-1].Method = append(fd.Service[svc-1].Method, md)
		locs = append(locs, fmt.Sprintf("%s.S%d.M%d", pkg, svc, i+1))
	}
	return fd, locs
}
