package gen

import (
	"crypto/sha256"
	"encoding/hex"
	"encoding/json"
	"fmt"
	"math/rand/v2"
	"os"
	"os/exec"
	"path"
	"sort"
	"strings"
	"sync"

	"google.golang.org/protobuf/internal/verifh/core"
	"google.golang.org/protobuf/proto"
	"google.golang.org/protobuf/reflect/protodesc"
	"google.golang.org/protobuf/reflect/protoreflect"
	"google.golang.org/protobuf/reflect/protoregistry"
	"google.golang.org/protobuf/types/descriptorpb"
	"google.golang.org/protobuf/types/pluginpb"
)

// Module "gen" (C40): protoc-gen-go run as a library on CodeGeneratorRequests.
//
//	{op: "plan", base: {set, seed, par}, steps: [{mode: "in" | "fresh", perm}]}
//	     -> out {obs: [{key, dig, err, files: [{n, d}]}], det, filedet, nobs}
//	{op: "one", base, perm} -> one observation (this is what a fresh process executes)
//
// base.set >= 0 selects a set of linked files (all registered files of one directory; taken modulo the number of sets),
// base.set < 0 with base.opt a custom-option request shape (optreq.go), otherwise a random schema RandSchema(base.seed); base.par selects a parameter combination
// (API level x import-path mode x annotate_code; modulo the number of combinations); perm permutes file_to_generate
// (0 as listed, 1 reversed, 2 rotated by one).  key = SHA-256 of the serialized request, dig = SHA-256 of the
// serialized response exactly as the plugin would write it, files = per generated file the SHA-256 of its content.
func init() {
	core.Register(&core.Module{Name: "gen", Exec: genExec, Gen: genGen, Sequential: true})
}

var (
	corpusOnce sync.Once
	corpusSets [][]string // file paths per set
)

var prioritySets = []string{
	"cmd/protoc-gen-go/testdata/import_public", "cmd/protoc-gen-go/testdata/extensions/ext", "internal/testprotos/testeditions",
	"cmd/protoc-gen-go/testdata/imports", "internal/testprotos/test3", "cmd/protoc-gen-go/testdata/nopackage",
	"cmd/protoc-gen-go/testdata/extensions/base", "google/protobuf", "internal/testprotos/test", "cmd/protoc-gen-go/testdata/enumprefix",
	"cmd/protoc-gen-go/testdata/nameclash/test_name_clash_hybrid", "cmd/protoc-gen-go/testdata/fieldnames",
}

func corpus() [][]string {
	corpusOnce.Do(func() {
		byDir := map[string][]string{}
		protoregistry.GlobalFiles.RangeFiles(func(fd protoreflect.FileDescriptor) bool {
			if !strings.HasPrefix(fd.Path(), "verif/") {
				byDir[path.Dir(fd.Path())] = append(byDir[path.Dir(fd.Path())], fd.Path())
			}
			return true
		})
		var dirs []string
		for d := range byDir {
			dirs = append(dirs, d)
		}
		sort.Strings(dirs)
		seen := map[string]bool{}
		add := func(d string) {
			if fs, ok := byDir[d]; ok && !seen[d] {
				seen[d] = true
				sort.Strings(fs)
				corpusSets = append(corpusSets, fs)
			}
		}
		for _, d := range prioritySets {
			add(d)
		}
		for _, d := range dirs {
			add(d)
		}
	})
	return corpusSets
}

var apiParams = []string{"", "default_api_level=API_OPEN", "default_api_level=API_HYBRID", "default_api_level=API_OPAQUE"}

const numParams = 4 * 4 * 2

func permute(files []string, perm int) []string {
	out := append([]string(nil), files...)
	switch perm % 3 {
	case 1:
		for i, j := 0, len(out)-1; i < j; i, j = i+1, j-1 {
			out[i], out[j] = out[j], out[i]
		}
	case 2:
		if len(out) > 1 {
			out = append(out[1:], out[0])
		}
	}
	return out
}

// buildRequest builds the CodeGeneratorRequest for a base and a permutation, the way protoc would: proto_file holds
// the transitive closure in topological order, visited in file_to_generate order.
func buildRequest(base map[string]any, perm int) *pluginpb.CodeGeneratorRequest {
	defer func() { // building the request is the harness's business: a failure here is never a verdict on the generator
		if r := recover(); r != nil {
			panic(fmt.Sprint("harness: request builder: ", r))
		}
	}()
	par := core.Int(base["par"])
	if par < 0 {
		par = -par
	}
	par %= numParams
	set := core.Int(base["set"])
	req := &pluginpb.CodeGeneratorRequest{CompilerVersion: &pluginpb.Version{Major: proto.Int32(5), Minor: proto.Int32(29), Patch: proto.Int32(1)}}
	local := map[string]*descriptorpb.FileDescriptorProto{}
	var targets []string
	if opt := core.Map(base["opt"]); set < 0 && opt != nil { // a custom-option request shape (GenRequest.tla)
		for _, fd := range optFiles(opt) {
			local[fd.GetName()] = fd
			targets = append(targets, fd.GetName())
		}
	} else if set < 0 {
		fd := RandSchema(uint64(core.Int(base["seed"])), "")
		local[fd.GetName()] = fd
		targets = []string{fd.GetName()}
	} else if ts := core.List(base["targets"]); len(ts) > 0 { // explicit list (passed to fresh processes)
		for _, t := range ts {
			targets = append(targets, core.Str(t))
		}
	} else {
		targets = corpus()[set%len(corpus())]
	}
	targets = permute(targets, perm)
	req.FileToGenerate = targets
	done := map[string]bool{}
	var visit func(p string)
	visit = func(p string) {
		if done[p] {
			return
		}
		done[p] = true
		fdp := local[p]
		if fdp == nil {
			fd, err := protoregistry.GlobalFiles.FindFileByPath(p)
			if err != nil {
				// an import that is not linked into this binary (hand-written irregular.proto): protoc could not have
				// built such a request; the plugin is handed the incomplete closure and refuses it
				return
			}
			fdp = protodesc.ToFileDescriptorProto(fd)
		}
		for _, d := range fdp.Dependency {
			visit(d)
		}
		req.ProtoFile = append(req.ProtoFile, fdp)
	}
	for _, t := range targets {
		visit(t)
	}
	var ps []string
	if a := apiParams[par%4]; a != "" {
		ps = append(ps, a)
	}
	switch (par / 4) % 4 {
	case 1:
		ps = append(ps, "paths=source_relative")
	case 2: // import path of every file overridden on the command line
		var names []string
		for _, f := range req.ProtoFile {
			names = append(names, f.GetName())
		}
		sort.Strings(names)
		byName := map[string]*descriptorpb.FileDescriptorProto{}
		for _, f := range req.ProtoFile {
			byName[f.GetName()] = f
		}
		for _, n := range names {
			gp := byName[n].GetOptions().GetGoPackage() // "import/path;name": keep the package name, move the path
			if gp == "" {
				gp = "nopkg/" + strings.NewReplacer(".", "_").Replace(path.Dir(n)) + ";nopkg"
			}
			ps = append(ps, "M"+n+"=verif.test/alt/"+gp)
		}
	case 3:
		if set < 0 {
			ps = append(ps, "module=verif.test")
		} else {
			ps = append(ps, "module=google.golang.org/protobuf")
		}
	}
	if (par/16)%2 == 1 {
		ps = append(ps, "annotate_code=true")
	}
	if len(ps) > 0 {
		req.Parameter = proto.String(strings.Join(ps, ","))
	}
	return req
}

func firstLine(s string) string {
	if i := strings.IndexByte(s, '\n'); i >= 0 {
		s = s[:i]
	}
	if len(s) > 160 {
		s = s[:160]
	}
	return s
}

func digest(b []byte) string {
	h := sha256.Sum256(b)
	return hex.EncodeToString(h[:12])
}

// observe runs the generator once on the request, through the same byte interface as the plugin binary.
func observe(base map[string]any, perm int) core.Case {
	in, err := proto.MarshalOptions{Deterministic: true}.Marshal(buildRequest(base, perm))
	if err != nil {
		panic(err)
	}
	obs := core.Case{"key": digest(in), "err": "", "dig": "", "files": []any{}}
	req := &pluginpb.CodeGeneratorRequest{}
	if err := proto.Unmarshal(in, req); err != nil {
		panic(err)
	}
	resp, err := runGenerator(req)
	if err != nil {
		// the plugin would exit with a message on stderr: there is no CodeGeneratorResponse to compare
		obs["err"] = "new"
		obs["errtext"] = firstLine(err.Error())
		return obs
	}
	out, err := proto.Marshal(resp)
	if err != nil {
		panic(err)
	}
	obs["dig"] = digest(out)
	if resp.Error != nil {
		obs["err"] = "resp"
		obs["errtext"] = firstLine(resp.GetError())
	}
	files := []any{}
	for _, f := range resp.File {
		files = append(files, core.Case{"n": f.GetName(), "d": digest([]byte(f.GetContent()))})
	}
	obs["files"] = files
	return obs
}

func observeFresh(base map[string]any, perm int) core.Case {
	dir, err := os.MkdirTemp("", "verif-genfresh-")
	if err != nil {
		panic(err)
	}
	defer os.RemoveAll(dir)
	b2 := core.Case{"set": base["set"], "seed": base["seed"], "par": base["par"]}
	if base["opt"] != nil {
		b2["opt"] = base["opt"]
	}
	if core.Int(base["set"]) >= 0 { // spare the child the corpus scan
		ts := []any{}
		for _, t := range corpus()[core.Int(base["set"])%len(corpus())] {
			ts = append(ts, t)
		}
		b2["targets"] = ts
	}
	line, _ := json.Marshal(core.Case{"op": "one", "base": b2, "perm": perm})
	if err := os.WriteFile(dir+"/in", append(line, '\n'), 0o600); err != nil {
		panic(err)
	}
	exe, err := os.Executable()
	if err != nil {
		panic(err)
	}
	cmd := exec.Command(exe, "exec", "gen", dir+"/in", dir+"/out")
	// a single-threaded child without garbage collection starts four times faster on this (shared, slow) machine;
	// map iteration order and hash seeds stay randomised per process
	cmd.Env = append(os.Environ(), "GOMAXPROCS=1", "GOGC=off")
	if b, err := cmd.CombinedOutput(); err != nil {
		panic(fmt.Sprintf("harness: fresh process failed: %v\n%s", err, b))
	}
	b, err := os.ReadFile(dir + "/out")
	if err != nil {
		panic(err)
	}
	var ev map[string]any
	if err := json.Unmarshal(b, &ev); err != nil {
		panic(err)
	}
	return core.Map(ev["out"])
}

func genExec(c core.Case) core.Case {
	base := core.Map(c["base"])
	switch op := core.Str(c["op"]); op {
	case "one":
		return observe(base, core.Int(c["perm"]))
	case "plan":
		var obs []any
		byKey := map[string]string{}
		byFile := map[string]string{}
		det, filedet := true, true
		for _, s := range core.List(c["steps"]) {
			sm := core.Map(s)
			var o core.Case
			if core.Str(sm["mode"]) == "fresh" {
				o = observeFresh(base, core.Int(sm["perm"]))
			} else {
				o = observe(base, core.Int(sm["perm"]))
			}
			obs = append(obs, o)
			k, d := core.Str(o["key"]), core.Str(o["dig"])+"/"+core.Str(o["err"])
			if prev, ok := byKey[k]; ok && prev != d {
				det = false
			}
			byKey[k] = d
			for _, f := range core.List(o["files"]) {
				fm := core.Map(f)
				n, fd := core.Str(fm["n"]), core.Str(fm["d"])
				if prev, ok := byFile[n]; ok && prev != fd {
					filedet = false
				}
				byFile[n] = fd
			}
		}
		return core.Case{"obs": obs, "det": det, "filedet": filedet, "nobs": len(obs)}
	default:
		panic("harness: unknown gen op " + op)
	}
}

func genGen(r *rand.Rand, n int, emit func(core.Case)) {
	for i := 0; i < n; i++ {
		base := core.Case{"set": r.IntN(len(corpus())), "seed": 0, "par": r.IntN(numParams)}
		switch r.IntN(4) {
		case 0:
			base["set"], base["seed"] = -1, 1+r.IntN(1<<20)
		case 1: // a custom-option request shape
			typ := optTypes[r.IntN(len(optTypes))]
			ns := optCounts[typ]
			base["set"] = -2
			base["opt"] = core.Case{"site": optSites[r.IntN(len(optSites))], "typ": typ, "n": ns[r.IntN(len(ns))],
				"decl": []string{"same", "imported"}[r.IntN(2)]}
		}
		var steps []any
		for k, m := 0, 6+r.IntN(7); k < m; k++ { // the same request many times: Go randomises every map iteration anew
			mode := "in"
			if r.IntN(6) == 0 {
				mode = "fresh"
			}
			steps = append(steps, core.Case{"mode": mode, "perm": r.IntN(3)})
		}
		emit(core.Case{"op": "plan", "base": base, "steps": steps})
	}
}
