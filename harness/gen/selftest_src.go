package gen

// selftestSource is the program that is compiled together with the generated packages of a C41 batch (see compile.go).
const selftestSource = `// Self-test of generated packages (C41): for every package of the manifest compare the registered file descriptor with
// the input and check that every generated message type is wire-, JSON- and reflection-equivalent to a dynamicpb
// message of the same descriptor, on seeded random message values.  Prints one JSON line per package.
package main

import (
	"encoding/json"
	"fmt"
	"math"
	"math/rand/v2"
	"os"

	"google.golang.org/protobuf/encoding/protojson"
	"google.golang.org/protobuf/proto"
	"google.golang.org/protobuf/reflect/protodesc"
	"google.golang.org/protobuf/reflect/protoreflect"
	"google.golang.org/protobuf/reflect/protoregistry"
	"google.golang.org/protobuf/types/descriptorpb"
	"google.golang.org/protobuf/types/dynamicpb"
)

type pkg struct {
	ID     string   "json:\"id\""
	Path   string   "json:\"path\""
	Expect string   "json:\"expect\""
	Fields []string "json:\"fields\""
	Methods []string "json:\"methods\""
	Values int      "json:\"values\""
	Seed   uint64   "json:\"seed\""
}

type result struct {
	ID         string   "json:\"id\""
	Descriptor bool     "json:\"descriptor\""
	Wire       bool     "json:\"wire\""
	JSON       bool     "json:\"json\""
	Reflect    bool     "json:\"reflect\""
	Presence   []bool   "json:\"presence\""
	Packed     []bool   "json:\"packed\""
	Methods    []method "json:\"methods\""
	Messages   int      "json:\"messages\""
	Values     int      "json:\"values\""
	Notes      []string "json:\"notes\""
}

type method struct {
	In  string "json:\"in\""
	Out string "json:\"out\""
	CS  bool   "json:\"cs\""
	SS  bool   "json:\"ss\""
}

// typeRef names a message the way the services items do: relative to the file's package, Empty for the imported
// well-known type; a placeholder (an unresolved reference) gets a question mark.
func typeRef(fd protoreflect.FileDescriptor, md protoreflect.MessageDescriptor) string {
	if md == nil {
		return "<nil>"
	}
	n := string(md.FullName())
	if p := string(fd.Package()) + "."; len(n) > len(p) && n[:len(p)] == p {
		n = n[len(p):]
	} else if n == "google.protobuf.Empty" {
		n = "Empty"
	}
	if md.IsPlaceholder() {
		n += "?"
	} else if d, err := protoregistry.GlobalFiles.FindDescriptorByName(md.FullName()); err != nil || d != protoreflect.Descriptor(md) {
		n += "!" // not the descriptor that is registered under this name
	}
	return n
}

func main() {
	b, err := os.ReadFile(os.Args[1])
	if err != nil {
		panic(err)
	}
	var pkgs []pkg
	if err := json.Unmarshal(b, &pkgs); err != nil {
		panic(err)
	}
	enc := json.NewEncoder(os.Stdout)
	for _, p := range pkgs {
		enc.Encode(check(p))
	}
}

func (r *result) note(f string, a ...any) {
	if len(r.Notes) < 6 {
		s := fmt.Sprintf(f, a...)
		if len(s) > 300 {
			s = s[:300]
		}
		r.Notes = append(r.Notes, s)
	}
}

func check(p pkg) (res *result) {
	res = &result{ID: p.ID, Wire: true, JSON: true, Reflect: true, Presence: []bool{}, Packed: []bool{}, Methods: []method{}, Notes: []string{}}
	defer func() {
		if x := recover(); x != nil {
			res.Wire, res.JSON, res.Reflect = false, false, false
			res.note("panic: %v", x)
		}
	}()
	fd, err := protoregistry.GlobalFiles.FindFileByPath(p.Path)
	if err != nil {
		res.note("file %s is not registered: %v", p.Path, err)
		res.Wire, res.JSON, res.Reflect = false, false, false
		return res
	}
	// 1. the registered descriptor equals the input
	wb, err := os.ReadFile(p.Expect)
	if err != nil {
		panic(err)
	}
	want := &descriptorpb.FileDescriptorProto{}
	if err := proto.Unmarshal(wb, want); err != nil {
		panic(err)
	}
	got := protodesc.ToFileDescriptorProto(fd)
	// both sides in the canonical rendering of protodesc (an explicit syntax = "proto2" is not kept by any descriptor)
	if wfd, err := protodesc.NewFile(want, protoregistry.GlobalFiles); err != nil {
		res.note("input descriptor rejected by protodesc: %v", err)
	} else {
		want = protodesc.ToFileDescriptorProto(wfd)
	}
	res.Descriptor = proto.Equal(want, got)
	if !res.Descriptor {
		res.note("registered descriptor differs from the input")
	}
	// 2. shapes: presence / packedness of the listed fields as the generated package registers them
	for _, f := range p.Fields {
		var d protoreflect.FieldDescriptor
		if len(f) > 4 && f[:4] == "ext:" {
			xt, err := protoregistry.GlobalTypes.FindExtensionByName(protoreflect.FullName(f[4:]))
			if err != nil {
				res.note("extension %s: %v", f, err)
				res.Presence, res.Packed = append(res.Presence, false), append(res.Packed, false)
				continue
			}
			d = xt.TypeDescriptor()
		} else {
			dd, _ := protoregistry.GlobalFiles.FindDescriptorByName(protoreflect.FullName(f))
			d, _ = dd.(protoreflect.FieldDescriptor)
		}
		if d == nil {
			res.note("field %s not found", f)
			res.Presence, res.Packed = append(res.Presence, false), append(res.Packed, false)
			continue
		}
		res.Presence, res.Packed = append(res.Presence, d.HasPresence()), append(res.Packed, d.IsPacked())
	}
	// 2b. services: what the registered descriptor reports for the listed methods
	for _, mn := range p.Methods {
		dd, _ := protoregistry.GlobalFiles.FindDescriptorByName(protoreflect.FullName(mn))
		md, _ := dd.(protoreflect.MethodDescriptor)
		if md == nil {
			res.note("method %s not found", mn)
			res.Methods = append(res.Methods, method{In: "<missing>", Out: "<missing>"})
			continue
		}
		res.Methods = append(res.Methods, method{In: typeRef(fd, md.Input()), Out: typeRef(fd, md.Output()), CS: md.IsStreamingClient(), SS: md.IsStreamingServer()})
	}
	// 3. every message type against dynamicpb
	r := rand.New(rand.NewPCG(p.Seed, 41))
	var walk func(mds protoreflect.MessageDescriptors)
	walk = func(mds protoreflect.MessageDescriptors) {
		for i := 0; i < mds.Len(); i++ {
			md := mds.Get(i)
			if md.IsMapEntry() {
				continue
			}
			mt, err := protoregistry.GlobalTypes.FindMessageByName(md.FullName())
			if err != nil {
				res.Reflect = false
				res.note("message %s is not registered: %v", md.FullName(), err)
				continue
			}
			res.Messages++
			if mt.Descriptor() != md {
				res.Reflect = false
				res.note("message type %s does not carry the file's descriptor", md.FullName())
			}
			for k := 0; k < p.Values; k++ {
				res.Values++
				equiv(res, r, mt)
			}
			walk(md.Messages())
		}
	}
	walk(fd.Messages())
	return res
}

var mo = proto.MarshalOptions{Deterministic: true, AllowPartial: true}
var uo = proto.UnmarshalOptions{AllowPartial: true}

func equiv(res *result, r *rand.Rand, mt protoreflect.MessageType) {
	md := mt.Descriptor()
	dyn := dynamicpb.NewMessage(md)
	populate(r, dyn, 0)
	// wire: dynamicpb bytes decode into the generated type and come back as an equal message of the same size
	b1, err := mo.Marshal(dyn)
	if err != nil {
		res.Wire = false
		res.note("%s: marshal(dynamic): %v", md.FullName(), err)
		return
	}
	gen := mt.New().Interface()
	if err := uo.Unmarshal(b1, gen); err != nil {
		res.Wire = false
		res.note("%s: unmarshal into generated type: %v (%x)", md.FullName(), err, b1)
		return
	}
	b2, err := mo.Marshal(gen)
	if err != nil {
		res.Wire = false
		res.note("%s: marshal(generated): %v", md.FullName(), err)
		return
	}
	back := dynamicpb.NewMessage(md)
	if err := uo.Unmarshal(b2, back); err != nil || !proto.Equal(dyn, back) || proto.Size(gen) != len(b2) || len(b2) != len(b1) {
		res.Wire = false
		res.note("%s: wire round trip through the generated type changed the message: %x -> %x", md.FullName(), b1, b2)
	}
	// reflection: the two implementations hold equal content and answer Has/WhichOneof/Range alike
	if !proto.Equal(dyn, gen) || !proto.Equal(gen, dyn) {
		res.Reflect = false
		res.note("%s: proto.Equal(dynamic, generated) is false for %x", md.FullName(), b1)
	}
	dm, gm := dyn.ProtoReflect(), gen.ProtoReflect()
	fds := md.Fields()
	for i := 0; i < fds.Len(); i++ {
		f := fds.Get(i)
		if dm.Has(f) != gm.Has(f) {
			res.Reflect = false
			res.note("%s: Has(%s) differs: dynamic %v generated %v", md.FullName(), f.Name(), dm.Has(f), gm.Has(f))
		}
		if !f.IsList() && !f.IsMap() && f.Message() == nil && !valueEqual(f, dm.Get(f), gm.Get(f)) {
			res.Reflect = false
			res.note("%s: Get(%s) differs (default or value)", md.FullName(), f.Name())
		}
	}
	ods := md.Oneofs()
	for i := 0; i < ods.Len(); i++ {
		a, b := dm.WhichOneof(ods.Get(i)), gm.WhichOneof(ods.Get(i))
		if (a == nil) != (b == nil) || (a != nil && a.Number() != b.Number()) {
			res.Reflect = false
			res.note("%s: WhichOneof(%s) differs", md.FullName(), ods.Get(i).Name())
		}
	}
	nd, ng := 0, 0
	dm.Range(func(protoreflect.FieldDescriptor, protoreflect.Value) bool { nd++; return true })
	gm.Range(func(protoreflect.FieldDescriptor, protoreflect.Value) bool { ng++; return true })
	if nd != ng {
		res.Reflect = false
		res.note("%s: Range visits %d fields on dynamic, %d on generated", md.FullName(), nd, ng)
	}
	// JSON: each implementation's JSON decodes into the other implementation to an equal message
	j1, err1 := protojson.MarshalOptions{AllowPartial: true}.Marshal(dyn)
	j2, err2 := protojson.MarshalOptions{AllowPartial: true}.Marshal(gen)
	if (err1 == nil) != (err2 == nil) {
		res.JSON = false
		res.note("%s: protojson.Marshal verdicts differ: %v / %v", md.FullName(), err1, err2)
		return
	}
	if err1 != nil {
		return // e.g. invalid UTF-8 in a proto2 string: both refuse
	}
	// (a schema may give two fields the same JSON name - foo and foo_ - so that its own JSON is ambiguous: what is demanded
	// is that the generated type treats every document exactly as the dynamic type does)
	ju := protojson.UnmarshalOptions{AllowPartial: true}
	for _, j := range [][]byte{j1, j2} {
		g2 := mt.New().Interface()
		d2 := dynamicpb.NewMessage(md)
		eg, ed := ju.Unmarshal(j, g2), ju.Unmarshal(j, d2)
		if (eg == nil) != (ed == nil) {
			res.JSON = false
			res.note("%s: JSON %s decodes with different verdicts: generated %v, dynamic %v", md.FullName(), j, eg, ed)
			return
		}
		if eg == nil && !proto.Equal(g2, d2) {
			res.JSON = false
			res.note("%s: JSON %s decodes to different messages in the generated and the dynamic type", md.FullName(), j)
			return
		}
	}
	// and where the document is unambiguous, it is a round trip
	g3 := mt.New().Interface()
	if err := ju.Unmarshal(j2, g3); err == nil && !proto.Equal(g3, gen) {
		d3 := dynamicpb.NewMessage(md)
		if ju.Unmarshal(j1, d3) == nil && proto.Equal(d3, dyn) {
			res.JSON = false
			res.note("%s: JSON round trip changes the generated message but not the dynamic one: %s", md.FullName(), j2)
		}
	}
}

func valueEqual(f protoreflect.FieldDescriptor, a, b protoreflect.Value) bool {
	switch f.Kind() {
	case protoreflect.BytesKind:
		return string(a.Bytes()) == string(b.Bytes())
	case protoreflect.FloatKind, protoreflect.DoubleKind:
		x, y := a.Float(), b.Float()
		return x == y || (math.IsNaN(x) && math.IsNaN(y))
	case protoreflect.EnumKind:
		return a.Enum() == b.Enum()
	}
	return a.Interface() == b.Interface()
}

var ints = []int64{0, 1, -1, 127, 128, 300, math.MaxInt32, math.MinInt32, math.MaxInt64, math.MinInt64, 1 << 35}
var strs = []string{"", "a", "hello", "世界", "a\"b\\c\n", "\x00\x7f"}

func scalar(r *rand.Rand, f protoreflect.FieldDescriptor) protoreflect.Value {
	i := ints[r.IntN(len(ints))]
	if r.IntN(3) == 0 {
		i = int64(r.Uint64())
	}
	switch f.Kind() {
	case protoreflect.BoolKind:
		return protoreflect.ValueOfBool(r.IntN(2) == 0)
	case protoreflect.Int32Kind, protoreflect.Sint32Kind, protoreflect.Sfixed32Kind:
		return protoreflect.ValueOfInt32(int32(i))
	case protoreflect.Uint32Kind, protoreflect.Fixed32Kind:
		return protoreflect.ValueOfUint32(uint32(i))
	case protoreflect.Int64Kind, protoreflect.Sint64Kind, protoreflect.Sfixed64Kind:
		return protoreflect.ValueOfInt64(i)
	case protoreflect.Uint64Kind, protoreflect.Fixed64Kind:
		return protoreflect.ValueOfUint64(uint64(i))
	case protoreflect.FloatKind:
		return protoreflect.ValueOfFloat32([]float32{0, 1.5, -2, float32(math.Inf(1)), float32(math.NaN()), 1e-30, float32(math.Copysign(0, -1))}[r.IntN(7)])
	case protoreflect.DoubleKind:
		return protoreflect.ValueOfFloat64([]float64{0, 1.5, -2, math.Inf(-1), math.NaN(), 1e-300, math.Copysign(0, -1)}[r.IntN(7)])
	case protoreflect.StringKind:
		return protoreflect.ValueOfString(strs[r.IntN(len(strs))])
	case protoreflect.BytesKind:
		return protoreflect.ValueOfBytes([]byte([]string{"", "x", "\x00\xff\x80", "bytes"}[r.IntN(4)]))
	case protoreflect.EnumKind:
		vs := f.Enum().Values()
		return protoreflect.ValueOfEnum(vs.Get(r.IntN(vs.Len())).Number())
	}
	panic("unexpected kind " + f.Kind().String())
}

func populate(r *rand.Rand, m protoreflect.Message, depth int) {
	fds := m.Descriptor().Fields()
	var all []protoreflect.FieldDescriptor
	for i := 0; i < fds.Len(); i++ {
		all = append(all, fds.Get(i))
	}
	if depth == 0 {
		protoregistry.GlobalTypes.RangeExtensionsByMessage(m.Descriptor().FullName(), func(xt protoreflect.ExtensionType) bool {
			all = append(all, xt.TypeDescriptor())
			return true
		})
	}
	for _, f := range all {
		required := f.Cardinality() == protoreflect.Required
		if od := f.ContainingOneof(); od != nil && !od.IsSynthetic() {
			if m.WhichOneof(od) != nil || r.IntN(od.Fields().Len()+1) != 0 {
				continue
			}
		} else if !required && r.IntN(5) < 2 {
			continue
		}
		switch {
		case f.IsMap():
			mp := m.Mutable(f).Map()
			for k, n := 0, r.IntN(3); k < n; k++ {
				key := scalar(r, f.MapKey()).MapKey()
				if f.MapValue().Message() != nil {
					v := mp.NewValue()
					if depth < 2 {
						populate(r, v.Message(), depth+1)
					}
					mp.Set(key, v)
				} else {
					mp.Set(key, scalar(r, f.MapValue()))
				}
			}
		case f.IsList():
			l := m.Mutable(f).List()
			for k, n := 0, r.IntN(4); k < n; k++ {
				if f.Message() != nil {
					v := l.NewElement()
					if depth < 2 {
						populate(r, v.Message(), depth+1)
					}
					l.Append(v)
				} else {
					l.Append(scalar(r, f))
				}
			}
		case f.Message() != nil:
			if depth < 3 {
				v := m.NewField(f)
				if depth < 2 {
					populate(r, v.Message(), depth+1)
				}
				m.Set(f, v)
			}
		default:
			m.Set(f, scalar(r, f))
		}
	}
}
`
