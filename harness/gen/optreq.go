package gen

import (
	"fmt"

	"google.golang.org/protobuf/internal/verifh/core"
	"google.golang.org/protobuf/proto"
	"google.golang.org/protobuf/reflect/protodesc"
	"google.golang.org/protobuf/reflect/protoreflect"
	"google.golang.org/protobuf/reflect/protoregistry"
	"google.golang.org/protobuf/types/descriptorpb"
	"google.golang.org/protobuf/types/dynamicpb"
)

// Custom-option request shapes (C40, spec/gen/GenRequest.tla):
//
//	opt = {site, typ, n, decl}
//
// A shape is rendered as a file declaring
//
//	message Opt { map<string,string> m = 1; optional Sub sub = 2; optional string s = 3; }
//	message Sub { map<int32,string> im = 1; }
//	extend google.protobuf.<Site>Options { <typ> opt = 50001; }
//
// and a file (the same one when decl = "same", an importing one otherwise) that holds a message U with a field, a
// oneof, an extension range, an enum UE, and a service S with a method, and sets (opt) at the site.  The option value
// is encoded the way protoc hands it to a plugin: the request is serialized and parsed again by a process that does
// not know the extension, so that it arrives as unknown fields of the options message (observe does exactly that).

var optSites = []string{"file", "message", "field", "oneof", "enum", "value", "service", "method", "range"}
var optTypes = []string{"int32", "string", "rep", "message", "map", "submap"}
var optCounts = map[string][]int{"int32": {1}, "string": {1}, "message": {1}, "rep": {2, 8}, "map": {0, 1, 2, 8}, "submap": {1, 2, 8}}

var siteOptions = map[string]string{"file": "FileOptions", "message": "MessageOptions", "field": "FieldOptions", "oneof": "OneofOptions",
	"enum": "EnumOptions", "value": "EnumValueOptions", "service": "ServiceOptions", "method": "MethodOptions", "range": "ExtensionRangeOptions"}

func optFiles(opt map[string]any) []*descriptorpb.FileDescriptorProto {
	site, typ, n, decl := core.Str(opt["site"]), core.Str(opt["typ"]), core.Int(opt["n"]), core.Str(opt["decl"])
	if siteOptions[site] == "" || optCounts[typ] == nil || (decl != "same" && decl != "imported") {
		panic(fmt.Sprintf("harness: unknown option shape %v", opt))
	}
	tag := fmt.Sprintf("%s_%s_%d_%s", site, typ, n, decl)
	pkg := "verif.opt." + tag
	optional := descriptorpb.FieldDescriptorProto_LABEL_OPTIONAL.Enum()
	repeated := descriptorpb.FieldDescriptorProto_LABEL_REPEATED.Enum()
	tString, tInt32, tMsg := descriptorpb.FieldDescriptorProto_TYPE_STRING.Enum(), descriptorpb.FieldDescriptorProto_TYPE_INT32.Enum(), descriptorpb.FieldDescriptorProto_TYPE_MESSAGE.Enum()
	entry := func(name string, key *descriptorpb.FieldDescriptorProto_Type) *descriptorpb.DescriptorProto {
		return &descriptorpb.DescriptorProto{Name: proto.String(name), Options: &descriptorpb.MessageOptions{MapEntry: proto.Bool(true)},
			Field: []*descriptorpb.FieldDescriptorProto{
				{Name: proto.String("key"), Number: proto.Int32(1), Label: optional, Type: key, JsonName: proto.String("key")},
				{Name: proto.String("value"), Number: proto.Int32(2), Label: optional, Type: tString, JsonName: proto.String("value")}}}
	}
	// ---- the declarations
	sub := &descriptorpb.DescriptorProto{Name: proto.String("Sub"), NestedType: []*descriptorpb.DescriptorProto{entry("ImEntry", tInt32)},
		Field: []*descriptorpb.FieldDescriptorProto{{Name: proto.String("im"), Number: proto.Int32(1), Label: repeated, Type: tMsg, TypeName: proto.String("." + pkg + ".Sub.ImEntry")}}}
	om := &descriptorpb.DescriptorProto{Name: proto.String("Opt"), NestedType: []*descriptorpb.DescriptorProto{entry("MEntry", tString)},
		Field: []*descriptorpb.FieldDescriptorProto{
			{Name: proto.String("m"), Number: proto.Int32(1), Label: repeated, Type: tMsg, TypeName: proto.String("." + pkg + ".Opt.MEntry")},
			{Name: proto.String("sub"), Number: proto.Int32(2), Label: optional, Type: tMsg, TypeName: proto.String("." + pkg + ".Sub")},
			{Name: proto.String("s"), Number: proto.Int32(3), Label: optional, Type: tString}}}
	ext := &descriptorpb.FieldDescriptorProto{Name: proto.String("opt"), Number: proto.Int32(50001), Label: optional,
		Extendee: proto.String(".google.protobuf." + siteOptions[site])}
	switch typ {
	case "int32":
		ext.Type = tInt32
	case "string":
		ext.Type = tString
	case "rep":
		ext.Type, ext.Label = tInt32, repeated
	default:
		ext.Type, ext.TypeName = tMsg, proto.String("."+pkg+".Opt")
	}
	declFile := &descriptorpb.FileDescriptorProto{Name: proto.String("verif/opt/" + tag + "_decl.proto"), Package: proto.String(pkg),
		Dependency:  []string{"google/protobuf/descriptor.proto"},
		Options:     &descriptorpb.FileOptions{GoPackage: proto.String("verif.test/opt/" + tag + ";optpb")},
		MessageType: []*descriptorpb.DescriptorProto{om, sub}, Extension: []*descriptorpb.FieldDescriptorProto{ext}}
	// ---- the value, through the descriptors of a throw-away rendering of the declarations
	dfd, err := protodesc.NewFile(declFile, protoregistry.GlobalFiles)
	if err != nil {
		panic("harness: option declarations rejected: " + err.Error())
	}
	xd := dynamicpb.NewExtensionType(dfd.Extensions().Get(0)).TypeDescriptor()
	setOpt := func(opts proto.Message) {
		m := opts.ProtoReflect()
		switch typ {
		case "int32":
			m.Set(xd, protoreflect.ValueOfInt32(7))
		case "string":
			m.Set(xd, protoreflect.ValueOfString("seven"))
		case "rep":
			l := m.Mutable(xd).List()
			for i := 0; i < n; i++ {
				l.Append(protoreflect.ValueOfInt32(int32(100 - 7*i)))
			}
		default:
			v := dynamicpb.NewMessage(dfd.Messages().ByName("Opt"))
			switch typ {
			case "message":
				v.Set(v.Descriptor().Fields().ByName("s"), protoreflect.ValueOfString("seven"))
			case "map":
				mp := v.Mutable(v.Descriptor().Fields().ByName("m")).Map()
				for i := 0; i < n; i++ {
					mp.Set(protoreflect.ValueOfString(fmt.Sprintf("key-%d", (i*5)%11)).MapKey(), protoreflect.ValueOfString(fmt.Sprintf("v%d", i)))
				}
				if n == 0 { // an empty map leaves no trace on the wire: keep the option itself present
					v.Set(v.Descriptor().Fields().ByName("s"), protoreflect.ValueOfString(""))
				}
			case "submap":
				sv := dynamicpb.NewMessage(dfd.Messages().ByName("Sub"))
				mp := sv.Mutable(sv.Descriptor().Fields().ByName("im")).Map()
				for i := 0; i < n; i++ {
					mp.Set(protoreflect.ValueOfInt32(int32((i*7)%13-3)).MapKey(), protoreflect.ValueOfString(fmt.Sprintf("v%d", i)))
				}
				v.Set(v.Descriptor().Fields().ByName("sub"), protoreflect.ValueOfMessage(sv))
			}
			m.Set(xd, protoreflect.ValueOfMessage(v))
		}
	}
	// ---- the file that uses the option
	use := declFile
	if decl == "imported" {
		use = &descriptorpb.FileDescriptorProto{Name: proto.String("verif/opt/" + tag + "_use.proto"), Package: proto.String(pkg),
			Dependency: []string{declFile.GetName()},
			Options:    &descriptorpb.FileOptions{GoPackage: proto.String("verif.test/opt/" + tag + ";optpb")}}
	}
	u := &descriptorpb.DescriptorProto{Name: proto.String("U"),
		Field: []*descriptorpb.FieldDescriptorProto{
			{Name: proto.String("f"), Number: proto.Int32(1), Label: optional, Type: tInt32},
			{Name: proto.String("a"), Number: proto.Int32(2), Label: optional, Type: tInt32, OneofIndex: proto.Int32(0)},
			{Name: proto.String("b"), Number: proto.Int32(3), Label: optional, Type: tString, OneofIndex: proto.Int32(0)}},
		OneofDecl:      []*descriptorpb.OneofDescriptorProto{{Name: proto.String("o")}},
		ExtensionRange: []*descriptorpb.DescriptorProto_ExtensionRange{{Start: proto.Int32(100), End: proto.Int32(200)}}}
	ue := &descriptorpb.EnumDescriptorProto{Name: proto.String("UE"), Value: []*descriptorpb.EnumValueDescriptorProto{
		{Name: proto.String("UE_ZERO"), Number: proto.Int32(0)}, {Name: proto.String("UE_ONE"), Number: proto.Int32(1)}}}
	svc := &descriptorpb.ServiceDescriptorProto{Name: proto.String("S"), Method: []*descriptorpb.MethodDescriptorProto{
		{Name: proto.String("Call"), InputType: proto.String("." + pkg + ".U"), OutputType: proto.String("." + pkg + ".U")}}}
	switch site {
	case "file":
		setOpt(use.Options)
	case "message":
		u.Options = &descriptorpb.MessageOptions{}
		setOpt(u.Options)
	case "field":
		u.Field[0].Options = &descriptorpb.FieldOptions{}
		setOpt(u.Field[0].Options)
	case "oneof":
		u.OneofDecl[0].Options = &descriptorpb.OneofOptions{}
		setOpt(u.OneofDecl[0].Options)
	case "enum":
		ue.Options = &descriptorpb.EnumOptions{}
		setOpt(ue.Options)
	case "value":
		ue.Value[1].Options = &descriptorpb.EnumValueOptions{}
		setOpt(ue.Value[1].Options)
	case "service":
		svc.Options = &descriptorpb.ServiceOptions{}
		setOpt(svc.Options)
	case "method":
		svc.Method[0].Options = &descriptorpb.MethodOptions{}
		setOpt(svc.Method[0].Options)
	case "range":
		u.ExtensionRange[0].Options = &descriptorpb.ExtensionRangeOptions{}
		setOpt(u.ExtensionRange[0].Options)
	}
	use.MessageType = append(use.MessageType, u)
	use.EnumType = append(use.EnumType, ue)
	use.Service = append(use.Service, svc)
	if decl == "imported" {
		return []*descriptorpb.FileDescriptorProto{declFile, use}
	}
	return []*descriptorpb.FileDescriptorProto{use}
}
