package gen

import (
	"fmt"
	"math/rand/v2"
	"strings"

	"google.golang.org/protobuf/proto"
	"google.golang.org/protobuf/reflect/protodesc"
	"google.golang.org/protobuf/reflect/protoregistry"
	"google.golang.org/protobuf/types/descriptorpb"
	"google.golang.org/protobuf/types/gofeaturespb"
)

// Random valid schemas (C40 requests, C41 pipeline).  A schema is a function of (seed, tag): tag is appended to the
// proto package and file name so that several renderings (one per API level) can be linked into one binary.
//
// Names are drawn from pools that collide with generated identifiers in the ways protogen RESOLVES (reset, string,
// descriptor, proto_message, build, get_x next to x, _x next to X_x, Go keywords and predeclared names, ...); the
// unresolved collisions (known finding F7) are exercised by the msgnames declarations, not here.

type T = descriptorpb.FieldDescriptorProto_Type

var scalarTypes = []T{
	descriptorpb.FieldDescriptorProto_TYPE_BOOL, descriptorpb.FieldDescriptorProto_TYPE_INT32, descriptorpb.FieldDescriptorProto_TYPE_SINT32,
	descriptorpb.FieldDescriptorProto_TYPE_UINT32, descriptorpb.FieldDescriptorProto_TYPE_INT64, descriptorpb.FieldDescriptorProto_TYPE_SINT64,
	descriptorpb.FieldDescriptorProto_TYPE_UINT64, descriptorpb.FieldDescriptorProto_TYPE_SFIXED32, descriptorpb.FieldDescriptorProto_TYPE_FIXED32,
	descriptorpb.FieldDescriptorProto_TYPE_FLOAT, descriptorpb.FieldDescriptorProto_TYPE_SFIXED64, descriptorpb.FieldDescriptorProto_TYPE_FIXED64,
	descriptorpb.FieldDescriptorProto_TYPE_DOUBLE, descriptorpb.FieldDescriptorProto_TYPE_STRING, descriptorpb.FieldDescriptorProto_TYPE_BYTES,
}

var fieldNamePool = []string{"a", "b_c", "reset", "string", "proto_message", "descriptor", "get_a", "_x", "X_x", "build", "type", "func",
	"range", "select", "interface", "map", "chan", "go", "err", "nil", "len", "new", "int32", "bool", "size", "marshal", "unmarshal",
	"extension_map", "m", "x", "value", "kind", "message", "has_a", "set_a", "clear_a", "d2", "e_3f", "camelCase", "enum", "state",
	"size_cache", "unknown_fields", "protoimpl", "sync", "reflect", "unsafe", "file", "init", "x_1"}
var messageNamePool = []string{"Msg", "Inner", "String", "Message", "Any", "Type", "Error", "Value", "Node", "reset", "my_msg", "M2", "Builder", "Enum", "X"}
var enumNamePool = []string{"Kind", "Color", "E", "Enum_", "state", "Mode"}
var oneofNamePool = []string{"choice", "o", "body", "which", "kind_of", "u"}

type schemaGen struct {
	r      *rand.Rand
	syntax string // proto2 | proto3 | editions
	pkg    string
	fd     *descriptorpb.FileDescriptorProto
	enums  []string // full names of all enums declared so far (with leading dot)
	msgs   []string // full names of all messages declared so far (with leading dot)
	exts   int
	goFeat bool
}

func (g *schemaGen) pick(pool []string, used map[string]bool) string {
	for k := 0; k < 100; k++ {
		n := pool[g.r.IntN(len(pool))]
		if !used[n] {
			used[n] = true
			return n
		}
	}
	n := fmt.Sprintf("n%d", len(used))
	used[n] = true
	return n
}

// RandSchema builds the FileDescriptorProto of a random valid schema.
func RandSchema(seed uint64, tag string) *descriptorpb.FileDescriptorProto {
	for attempt := uint64(0); ; attempt++ {
		// some random feature combinations are invalid (e.g. implicit presence on a closed-enum field): draw again
		fd := randSchemaOnce(seed+attempt*1000003, seed, tag)
		_, err := protodesc.NewFile(fd, protoregistry.GlobalFiles)
		if err == nil {
			return fd
		}
		if attempt > 200 {
			panic(fmt.Sprintf("harness: schema generator cannot produce a valid schema for seed %d: %v", seed, err))
		}
	}
}

func randSchemaOnce(rs, seed uint64, tag string) *descriptorpb.FileDescriptorProto {
	g := &schemaGen{r: rand.New(rand.NewPCG(rs, 0x5eed))}
	g.syntax = []string{"proto2", "proto3", "editions"}[g.r.IntN(3)]
	g.pkg = fmt.Sprintf("verif.s%d%s", seed, tag)
	g.fd = &descriptorpb.FileDescriptorProto{
		Name:    proto.String(fmt.Sprintf("verif/s%d%s.proto", seed, tag)),
		Package: proto.String(g.pkg),
		Options: &descriptorpb.FileOptions{GoPackage: proto.String(fmt.Sprintf("verif.test/gen/s%d%s;s%d", seed, tag, seed))},
	}
	switch g.syntax {
	case "proto2":
		if g.r.IntN(2) == 0 {
			g.fd.Syntax = proto.String("proto2")
		}
	case "proto3":
		g.fd.Syntax = proto.String("proto3")
	case "editions":
		g.fd.Syntax = proto.String("editions")
		g.fd.Edition = descriptorpb.Edition_EDITION_2023.Enum()
		if g.r.IntN(2) == 0 {
			g.fd.Options.Features = g.features(true)
		}
	}
	used := map[string]bool{}
	for i, n := 0, g.r.IntN(3); i < n; i++ {
		g.fd.EnumType = append(g.fd.EnumType, g.enum(g.pick(enumNamePool, used), "."+g.pkg, used))
	}
	for i, n := 0, 1+g.r.IntN(4); i < n; i++ {
		g.fd.MessageType = append(g.fd.MessageType, g.message(g.pick(messageNamePool, used), "."+g.pkg, 0))
	}
	// extensions of the first message, when it has an extension range
	if g.syntax != "proto3" && len(g.fd.MessageType[0].ExtensionRange) > 0 {
		xused := map[string]bool{}
		for k := range used {
			xused[k] = true
		}
		for i, n := 0, 1+g.r.IntN(3); i < n; i++ {
			f := g.field(g.pick(fieldNamePool, xused), int32(1000+g.exts), "ext")
			g.exts++
			f.Extendee = proto.String("." + g.pkg + "." + g.fd.MessageType[0].GetName())
			g.fd.Extension = append(g.fd.Extension, f)
		}
	}
	if g.goFeat {
		g.fd.Dependency = append(g.fd.Dependency, "google/protobuf/go_features.proto")
	}
	g.services(used)
	return g.fd
}

var serviceNamePool = []string{"Svc", "Service", "API", "Greeter_1"}
var methodNamePool = []string{"Call", "Get", "Stream", "reset", "String", "do_it", "M"}

// services are drawn last, so that the rest of the schema is the same function of the seed as it was before services
// were added: 0..2 services of 1..3 methods over the messages of the file (nested ones too) and google.protobuf.Empty,
// with every combination of the streaming flags.
func (g *schemaGen) services(used map[string]bool) {
	if g.r.IntN(3) != 0 {
		return
	}
	var cands []string
	for _, m := range g.msgs {
		if !strings.Contains(m, ".Grp") {
			cands = append(cands, m)
		}
	}
	if len(cands) == 0 {
		return
	}
	useEmpty := false
	pickT := func() string {
		if g.r.IntN(5) == 0 {
			useEmpty = true
			return ".google.protobuf.Empty"
		}
		return cands[g.r.IntN(len(cands))]
	}
	for i, n := 0, 1+g.r.IntN(2); i < n; i++ {
		sd := &descriptorpb.ServiceDescriptorProto{Name: proto.String(g.pick(serviceNamePool, used))}
		mused := map[string]bool{}
		for j, nm := 0, 1+g.r.IntN(3); j < nm; j++ {
			md := &descriptorpb.MethodDescriptorProto{Name: proto.String(g.pick(methodNamePool, mused)), InputType: proto.String(pickT()), OutputType: proto.String(pickT())}
			switch g.r.IntN(4) {
			case 1:
				md.ClientStreaming = proto.Bool(true)
			case 2:
				md.ServerStreaming = proto.Bool(true)
			case 3:
				md.ClientStreaming, md.ServerStreaming = proto.Bool(true), proto.Bool(true)
			}
			sd.Method = append(sd.Method, md)
		}
		g.fd.Service = append(g.fd.Service, sd)
	}
	if useEmpty {
		g.fd.Dependency = append(g.fd.Dependency, "google/protobuf/empty.proto")
	}
}

func (g *schemaGen) features(file bool) *descriptorpb.FeatureSet {
	fs := &descriptorpb.FeatureSet{}
	if g.r.IntN(3) == 0 {
		fs.FieldPresence = []descriptorpb.FeatureSet_FieldPresence{descriptorpb.FeatureSet_EXPLICIT, descriptorpb.FeatureSet_IMPLICIT}[g.r.IntN(2)].Enum()
	}
	if g.r.IntN(3) == 0 {
		fs.RepeatedFieldEncoding = []descriptorpb.FeatureSet_RepeatedFieldEncoding{descriptorpb.FeatureSet_PACKED, descriptorpb.FeatureSet_EXPANDED}[g.r.IntN(2)].Enum()
	}
	if g.r.IntN(3) == 0 {
		fs.Utf8Validation = []descriptorpb.FeatureSet_Utf8Validation{descriptorpb.FeatureSet_VERIFY, descriptorpb.FeatureSet_NONE}[g.r.IntN(2)].Enum()
	}
	if file && g.r.IntN(3) == 0 {
		fs.EnumType = []descriptorpb.FeatureSet_EnumType{descriptorpb.FeatureSet_OPEN, descriptorpb.FeatureSet_CLOSED}[g.r.IntN(2)].Enum()
	}
	if file && g.r.IntN(4) == 0 {
		fs.JsonFormat = []descriptorpb.FeatureSet_JsonFormat{descriptorpb.FeatureSet_ALLOW, descriptorpb.FeatureSet_LEGACY_BEST_EFFORT}[g.r.IntN(2)].Enum()
	}
	if file && g.r.IntN(4) == 0 {
		g.goFeat = true
		proto.SetExtension(fs, gofeaturespb.E_Go, &gofeaturespb.GoFeatures{
			StripEnumPrefix: []gofeaturespb.GoFeatures_StripEnumPrefix{gofeaturespb.GoFeatures_STRIP_ENUM_PREFIX_KEEP,
				gofeaturespb.GoFeatures_STRIP_ENUM_PREFIX_GENERATE_BOTH, gofeaturespb.GoFeatures_STRIP_ENUM_PREFIX_STRIP}[g.r.IntN(3)].Enum()})
	}
	return fs
}

func (g *schemaGen) enum(name, scope string, scopeUsed map[string]bool) *descriptorpb.EnumDescriptorProto {
	e := &descriptorpb.EnumDescriptorProto{Name: proto.String(name)}
	// enum values live in the scope that contains the enum
	prefix := []string{"", "V_", name + "_"}[g.r.IntN(3)]
	n := 1 + g.r.IntN(4)
	num := int32(0)
	for i := 0; i < n; i++ {
		vn := fmt.Sprintf("%s%s", prefix, []string{"ZERO", "one", "Two", "THREE_3", "x"}[i])
		for scopeUsed[vn] {
			vn += "_"
		}
		scopeUsed[vn] = true
		if i == 0 && g.syntax == "proto2" && g.r.IntN(3) == 0 {
			num = 1 + int32(g.r.IntN(3)) // closed enums need not start at zero
		}
		e.Value = append(e.Value, &descriptorpb.EnumValueDescriptorProto{Name: proto.String(vn), Number: proto.Int32(num)})
		switch g.r.IntN(4) {
		case 0:
			num += 1 + int32(g.r.IntN(100))
		case 1:
			num = -num - 1
			if num == 0 {
				num = 7
			}
		default:
			num++
		}
		if num < 0 && i+1 < n {
			num = -num + 1
		}
	}
	// a closed enum in proto3/open context must start at zero: keep the first value zero unless proto2
	if g.syntax != "proto2" {
		e.Value[0].Number = proto.Int32(0)
		seen := map[int32]bool{0: true}
		for _, v := range e.Value[1:] {
			for seen[v.GetNumber()] {
				v.Number = proto.Int32(v.GetNumber() + 1)
			}
			seen[v.GetNumber()] = true
		}
	} else {
		seen := map[int32]bool{}
		for _, v := range e.Value {
			for seen[v.GetNumber()] {
				v.Number = proto.Int32(v.GetNumber() + 1)
			}
			seen[v.GetNumber()] = true
		}
	}
	g.enums = append(g.enums, scope+"."+name)
	return e
}

func (g *schemaGen) message(name, scope string, depth int) *descriptorpb.DescriptorProto {
	m := &descriptorpb.DescriptorProto{Name: proto.String(name)}
	full := scope + "." + name
	g.msgs = append(g.msgs, full)
	used := map[string]bool{}
	if g.r.IntN(3) == 0 {
		m.EnumType = append(m.EnumType, g.enum(g.pick(enumNamePool, used), full, used))
	}
	if depth < 2 {
		for i, n := 0, g.r.IntN(3-depth); i < n; i++ {
			m.NestedType = append(m.NestedType, g.message(g.pick(messageNamePool, used), full, depth+1))
		}
	}
	if g.syntax != "proto3" && g.r.IntN(3) == 0 {
		m.ExtensionRange = append(m.ExtensionRange, &descriptorpb.DescriptorProto_ExtensionRange{Start: proto.Int32(1000), End: proto.Int32(2000)})
	}
	num := int32(1)
	next := func() int32 {
		n := num
		switch g.r.IntN(6) {
		case 0:
			num += 1 + int32(g.r.IntN(40))
		default:
			num++
		}
		if num >= 1000 {
			num = 2000 + (num - 1000)
		}
		if n >= 19000 && n <= 19999 {
			n = 20000
		}
		return n
	}
	nf := 1 + g.r.IntN(8)
	if depth == 0 && g.r.IntN(12) == 0 {
		nf = 66 + g.r.IntN(6) // more than 64 fields: the presence bitmap needs several words
	}
	for i := 0; i < nf; i++ {
		switch k := g.r.IntN(10); {
		case k == 0 && nf < 20: // map field
			fn := g.pick(fieldNamePool, used)
			f, entry := g.mapField(fn, next(), full)
			if used[entry.GetName()] {
				continue
			}
			used[entry.GetName()] = true
			m.NestedType = append(m.NestedType, entry)
			m.Field = append(m.Field, f)
		case k == 1 && nf < 20: // a oneof with 1..3 members
			on := g.pick(oneofNamePool, used)
			idx := int32(len(m.OneofDecl))
			m.OneofDecl = append(m.OneofDecl, &descriptorpb.OneofDescriptorProto{Name: proto.String(on)})
			for j, nm := 0, 1+g.r.IntN(3); j < nm; j++ {
				f := g.field(g.pick(fieldNamePool, used), next(), "oneof")
				f.OneofIndex = proto.Int32(idx)
				m.Field = append(m.Field, f)
			}
		default:
			m.Field = append(m.Field, g.field(g.pick(fieldNamePool, used), next(), "plain"))
		}
	}
	if g.syntax == "proto2" && g.r.IntN(4) == 0 { // a group: nested message + field of TYPE_GROUP named after it in lower case
		gn := fmt.Sprintf("Grp%d", depth)
		if !used[gn] && !used[fmt.Sprintf("grp%d", depth)] {
			used[gn], used[fmt.Sprintf("grp%d", depth)] = true, true
			m.NestedType = append(m.NestedType, g.message(gn, full, 2))
			lbl := descriptorpb.FieldDescriptorProto_LABEL_OPTIONAL
			if g.r.IntN(2) == 0 {
				lbl = descriptorpb.FieldDescriptorProto_LABEL_REPEATED
			}
			m.Field = append(m.Field, &descriptorpb.FieldDescriptorProto{Name: proto.String(fmt.Sprintf("grp%d", depth)), Number: proto.Int32(next()),
				Label: lbl.Enum(), Type: descriptorpb.FieldDescriptorProto_TYPE_GROUP.Enum(), TypeName: proto.String(full + "." + gn)})
		}
	}
	// proto3 optional fields need synthetic oneofs, declared after all real oneofs
	for _, f := range m.Field {
		if f.GetProto3Optional() {
			f.OneofIndex = proto.Int32(int32(len(m.OneofDecl)))
			m.OneofDecl = append(m.OneofDecl, &descriptorpb.OneofDescriptorProto{Name: proto.String("_" + f.GetName())})
		}
	}
	return m
}

func (g *schemaGen) mapField(name string, num int32, scope string) (*descriptorpb.FieldDescriptorProto, *descriptorpb.DescriptorProto) {
	entryName := mapEntryName(name)
	keyTypes := []T{descriptorpb.FieldDescriptorProto_TYPE_BOOL, descriptorpb.FieldDescriptorProto_TYPE_INT32, descriptorpb.FieldDescriptorProto_TYPE_SINT64,
		descriptorpb.FieldDescriptorProto_TYPE_UINT32, descriptorpb.FieldDescriptorProto_TYPE_FIXED64, descriptorpb.FieldDescriptorProto_TYPE_STRING}
	key := &descriptorpb.FieldDescriptorProto{Name: proto.String("key"), Number: proto.Int32(1), JsonName: proto.String("key"),
		Label: descriptorpb.FieldDescriptorProto_LABEL_OPTIONAL.Enum(), Type: keyTypes[g.r.IntN(len(keyTypes))].Enum()}
	val := g.field("value", 2, "mapvalue")
	val.JsonName = proto.String("value")
	entry := &descriptorpb.DescriptorProto{Name: proto.String(entryName), Field: []*descriptorpb.FieldDescriptorProto{key, val},
		Options: &descriptorpb.MessageOptions{MapEntry: proto.Bool(true)}}
	f := &descriptorpb.FieldDescriptorProto{Name: proto.String(name), Number: proto.Int32(num),
		Label: descriptorpb.FieldDescriptorProto_LABEL_REPEATED.Enum(), Type: descriptorpb.FieldDescriptorProto_TYPE_MESSAGE.Enum(),
		TypeName: proto.String(scope + "." + entryName)}
	return f, entry
}

func mapEntryName(s string) string {
	var b []byte
	up := true
	for i := 0; i < len(s); i++ {
		c := s[i]
		switch {
		case c == '_':
			up = true
		case up:
			if 'a' <= c && c <= 'z' {
				c -= 'a' - 'A'
			}
			b = append(b, c)
			up = false
		default:
			b = append(b, c)
		}
	}
	return string(b) + "Entry"
}

// field builds one field; where: plain | oneof | mapvalue | ext
func (g *schemaGen) field(name string, num int32, where string) *descriptorpb.FieldDescriptorProto {
	f := &descriptorpb.FieldDescriptorProto{Name: proto.String(name), Number: proto.Int32(num), Label: descriptorpb.FieldDescriptorProto_LABEL_OPTIONAL.Enum()}
	// type
	switch k := g.r.IntN(10); {
	case k < 2 && len(g.msgs) > 0:
		f.Type = descriptorpb.FieldDescriptorProto_TYPE_MESSAGE.Enum()
		f.TypeName = proto.String(g.msgs[g.r.IntN(len(g.msgs))])
	case k == 2 && len(g.enums) > 0:
		f.Type = descriptorpb.FieldDescriptorProto_TYPE_ENUM.Enum()
		f.TypeName = proto.String(g.enums[g.r.IntN(len(g.enums))])
	default:
		f.Type = scalarTypes[g.r.IntN(len(scalarTypes))].Enum()
	}
	isMsg := f.GetType() == descriptorpb.FieldDescriptorProto_TYPE_MESSAGE
	// cardinality
	repeated := false
	if where == "plain" || where == "ext" {
		switch g.r.IntN(5) {
		case 0, 1:
			repeated = true
			f.Label = descriptorpb.FieldDescriptorProto_LABEL_REPEATED.Enum()
		case 2:
			if where == "plain" && g.syntax == "proto2" && g.r.IntN(2) == 0 {
				f.Label = descriptorpb.FieldDescriptorProto_LABEL_REQUIRED.Enum()
			} else if where == "plain" && g.syntax == "proto3" && !isMsg {
				f.Proto3Optional = proto.Bool(true)
			}
		}
	}
	packable := repeated && !isMsg && f.GetType() != descriptorpb.FieldDescriptorProto_TYPE_STRING && f.GetType() != descriptorpb.FieldDescriptorProto_TYPE_BYTES
	if packable && g.syntax != "editions" && g.r.IntN(2) == 0 {
		f.Options = &descriptorpb.FieldOptions{Packed: proto.Bool(g.r.IntN(2) == 0)}
	}
	if isMsg && where != "mapvalue" && g.r.IntN(4) == 0 {
		if f.Options == nil {
			f.Options = &descriptorpb.FieldOptions{}
		}
		f.Options.Lazy = proto.Bool(true)
	}
	if g.syntax == "editions" && g.r.IntN(3) == 0 {
		fs := &descriptorpb.FeatureSet{}
		switch {
		case packable:
			fs.RepeatedFieldEncoding = []descriptorpb.FeatureSet_RepeatedFieldEncoding{descriptorpb.FeatureSet_PACKED, descriptorpb.FeatureSet_EXPANDED}[g.r.IntN(2)].Enum()
		case isMsg && where != "mapvalue" && g.r.IntN(2) == 0:
			fs.MessageEncoding = descriptorpb.FeatureSet_DELIMITED.Enum()
		case !repeated && where == "plain" && !isMsg:
			fs.FieldPresence = []descriptorpb.FeatureSet_FieldPresence{descriptorpb.FeatureSet_EXPLICIT, descriptorpb.FeatureSet_IMPLICIT,
				descriptorpb.FeatureSet_LEGACY_REQUIRED}[g.r.IntN(3)].Enum()
		case !repeated && where == "plain" && isMsg && g.r.IntN(2) == 0:
			fs.FieldPresence = descriptorpb.FeatureSet_LEGACY_REQUIRED.Enum()
		case f.GetType() == descriptorpb.FieldDescriptorProto_TYPE_STRING:
			fs.Utf8Validation = []descriptorpb.FeatureSet_Utf8Validation{descriptorpb.FeatureSet_VERIFY, descriptorpb.FeatureSet_NONE}[g.r.IntN(2)].Enum()
		}
		if f.Options == nil {
			f.Options = &descriptorpb.FieldOptions{}
		}
		f.Options.Features = fs
	}
	// explicit default (proto2, and editions fields that keep explicit presence)
	implicit := f.GetOptions().GetFeatures().GetFieldPresence() == descriptorpb.FeatureSet_IMPLICIT ||
		(g.syntax == "editions" && g.fd.GetOptions().GetFeatures().GetFieldPresence() == descriptorpb.FeatureSet_IMPLICIT &&
			(f.GetOptions().GetFeatures() == nil || f.GetOptions().GetFeatures().FieldPresence == nil))
	if !repeated && !isMsg && (g.syntax == "proto2" || (g.syntax == "editions" && !implicit)) && where != "mapvalue" && g.r.IntN(3) == 0 {
		switch f.GetType() {
		case descriptorpb.FieldDescriptorProto_TYPE_BOOL:
			f.DefaultValue = proto.String("true")
		case descriptorpb.FieldDescriptorProto_TYPE_STRING:
			f.DefaultValue = proto.String([]string{"hello", "a\"b\\c\n", "世界", ""}[g.r.IntN(4)])
		case descriptorpb.FieldDescriptorProto_TYPE_BYTES:
			f.DefaultValue = proto.String([]string{"bytes", "\\000\\377\\\"", ""}[g.r.IntN(3)])
		case descriptorpb.FieldDescriptorProto_TYPE_FLOAT, descriptorpb.FieldDescriptorProto_TYPE_DOUBLE:
			f.DefaultValue = proto.String([]string{"1.5", "-0", "inf", "-inf", "nan", "1e-30"}[g.r.IntN(6)])
		case descriptorpb.FieldDescriptorProto_TYPE_ENUM:
			// resolved by name below once the enum is known: use the generic route of leaving it unset
		case descriptorpb.FieldDescriptorProto_TYPE_UINT32, descriptorpb.FieldDescriptorProto_TYPE_UINT64, descriptorpb.FieldDescriptorProto_TYPE_FIXED32,
			descriptorpb.FieldDescriptorProto_TYPE_FIXED64:
			f.DefaultValue = proto.String([]string{"0", "7", "4294967295"}[g.r.IntN(3)])
		default:
			f.DefaultValue = proto.String([]string{"0", "-7", "2147483647", "-2147483648"}[g.r.IntN(4)])
		}
	}
	return f
}
