package conc

import (
	"fmt"
	"hash/fnv"
	"sort"
	"sync"
	"unsafe"

	"google.golang.org/protobuf/internal/filedesc"
	"google.golang.org/protobuf/proto"
	"google.golang.org/protobuf/reflect/protodesc"
	"google.golang.org/protobuf/reflect/protoreflect"
	"google.golang.org/protobuf/reflect/protoregistry"
	"google.golang.org/protobuf/types/descriptorpb"
)

// Fresh, not yet lazily initialised filedesc.File values for the gated replay of OnceInit on
// filedesc.File.lazyInit (C19): the raw descriptor of a registered file is built again with filedesc.Builder
// (the path generated code takes), against a registry that resolves imports in the global registry and forgets
// the registration.  Every schedule gets its own File.

type forgetfulFiles struct{}

func (forgetfulFiles) FindFileByPath(p string) (protoreflect.FileDescriptor, error) {
	return protoregistry.GlobalFiles.FindFileByPath(p)
}
func (forgetfulFiles) FindDescriptorByName(n protoreflect.FullName) (protoreflect.Descriptor, error) {
	return protoregistry.GlobalFiles.FindDescriptorByName(n)
}
func (forgetfulFiles) RegisterFile(protoreflect.FileDescriptor) error { return nil }

type fileSource struct {
	name           string
	raw            []byte
	ne, nm, nx, ns int32
	want           string
}

var (
	sourcesOnce sync.Once
	sources     []fileSource
	sourceNext  int
)

func countDecls(ms []*descriptorpb.DescriptorProto, ne, nm, nx *int32) {
	for _, m := range ms {
		*nm++
		*ne += int32(len(m.GetEnumType()))
		*nx += int32(len(m.GetExtension()))
		countDecls(m.GetNestedType(), ne, nm, nx)
	}
}

func loadSources() {
	var fds []protoreflect.FileDescriptor
	protoregistry.GlobalFiles.RangeFiles(func(fd protoreflect.FileDescriptor) bool {
		if fd.Messages().Len() > 0 {
			fds = append(fds, fd)
		}
		return true
	})
	sort.Slice(fds, func(i, j int) bool { return fds[i].Path() < fds[j].Path() })
	for _, fd := range fds {
		fdp := protodesc.ToFileDescriptorProto(fd)
		raw, err := proto.MarshalOptions{Deterministic: true}.Marshal(fdp)
		if err != nil {
			panic("harness: cannot marshal the descriptor of " + fd.Path())
		}
		s := fileSource{name: fd.Path(), raw: raw, want: digestFileStruct(fd)}
		s.ne, s.nx, s.ns = int32(len(fdp.GetEnumType())), int32(len(fdp.GetExtension())), int32(len(fdp.GetService()))
		countDecls(fdp.GetMessageType(), &s.ne, &s.nm, &s.nx)
		sources = append(sources, s)
	}
	if len(sources) == 0 {
		panic("harness: no file descriptors linked in")
	}
}

// nextFreshFile builds the next source again; the result has never been through lazyInit.
func nextFreshFile() (protoreflect.FileDescriptor, string, string) {
	sourcesOnce.Do(loadSources)
	s := sources[sourceNext%len(sources)]
	sourceNext++
	out := filedesc.Builder{
		GoPackagePath: "verif/fresh",
		RawDescriptor: s.raw,
		NumEnums:      s.ne, NumMessages: s.nm, NumExtensions: s.nx, NumServices: s.ns,
		FileRegistry: forgetfulFiles{},
	}.Build()
	return out.File, s.want, s.name
}

func fileID(fd protoreflect.FileDescriptor) uintptr {
	return uintptr(unsafe.Pointer(fd.(*filedesc.File)))
}

// useFile reads everything lazyInit builds and compares it with what the registered original says.
func useFile(fd protoreflect.FileDescriptor, want string) (ok bool, why string) {
	defer func() {
		if r := recover(); r != nil {
			ok, why = false, fmt.Sprint("panic while reading the descriptor: ", r)
		}
	}()
	if got := digestFileStruct(fd); got != want {
		return false, "descriptor digest " + got + " differs from the sequentially initialised original " + want
	}
	return true, ""
}

func digestFileStruct(fd protoreflect.FileDescriptor) string {
	h := fnv.New64a()
	w := func(a ...any) { fmt.Fprintln(h, a...) }
	var msgs func(ms protoreflect.MessageDescriptors)
	enums := func(es protoreflect.EnumDescriptors) {
		for i := 0; i < es.Len(); i++ {
			e := es.Get(i)
			w("enum", e.FullName(), e.Values().Len(), e.ReservedNames().Len(), e.ReservedRanges().Len(), e.IsClosed())
			for j := 0; j < e.Values().Len(); j++ {
				w(e.Values().Get(j).Name(), e.Values().Get(j).Number())
			}
		}
	}
	field := func(f protoreflect.FieldDescriptor) {
		w("field", f.FullName(), f.Number(), f.Kind(), f.Cardinality(), f.JSONName(), f.TextName(), f.HasPresence(), f.IsPacked(), f.IsList(), f.IsMap(),
			f.HasDefault(), f.IsExtension(), f.HasOptionalKeyword())
		if f.Message() != nil {
			w(f.Message().FullName(), f.Message().IsPlaceholder())
		}
		if f.Enum() != nil {
			w(f.Enum().FullName(), f.DefaultEnumValue() != nil)
		}
		if f.HasDefault() && f.Kind() != protoreflect.BytesKind {
			w(f.Default().String())
		}
		if f.ContainingOneof() != nil {
			w(f.ContainingOneof().Name(), f.ContainingOneof().IsSynthetic())
		}
		if f.ContainingMessage() != nil {
			w(f.ContainingMessage().FullName())
		}
	}
	msgs = func(ms protoreflect.MessageDescriptors) {
		for i := 0; i < ms.Len(); i++ {
			m := ms.Get(i)
			w("message", m.FullName(), m.IsMapEntry(), m.Fields().Len(), m.Oneofs().Len(), m.ReservedNames().Len(), m.ReservedRanges().Len(),
				m.RequiredNumbers().Len(), m.ExtensionRanges().Len(), m.Options() != nil)
			for j := 0; j < m.Fields().Len(); j++ {
				field(m.Fields().Get(j))
			}
			for j := 0; j < m.Oneofs().Len(); j++ {
				w(m.Oneofs().Get(j).Name(), m.Oneofs().Get(j).Fields().Len())
			}
			for j := 0; j < m.Extensions().Len(); j++ {
				field(m.Extensions().Get(j))
			}
			enums(m.Enums())
			msgs(m.Messages())
		}
	}
	msgs(fd.Messages())
	enums(fd.Enums())
	for j := 0; j < fd.Extensions().Len(); j++ {
		field(fd.Extensions().Get(j))
	}
	for j := 0; j < fd.Services().Len(); j++ {
		s := fd.Services().Get(j)
		w("service", s.FullName(), s.Methods().Len())
		for k := 0; k < s.Methods().Len(); k++ {
			m := s.Methods().Get(k)
			w(m.Name(), m.Input().FullName(), m.Output().FullName(), m.IsStreamingClient(), m.IsStreamingServer())
		}
	}
	w("imports", fd.Imports().Len(), fd.SourceLocations().Len(), fd.Options() != nil)
	return fmt.Sprintf("%016x", h.Sum64())
}
