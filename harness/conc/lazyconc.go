// Package conc replays specification schedules of the concurrency protocols on real goroutines
// (gating them at the verifhook instrumentation points) and records free-running executions.
package conc

import (
	"bytes"
	"fmt"
	"math/rand/v2"
	"runtime"
	"strconv"
	"sync"
	"sync/atomic"
	"time"
	"unsafe"

	lazyopaque "google.golang.org/protobuf/internal/testprotos/lazy/lazy_opaque"
	"google.golang.org/protobuf/internal/verifh/core"
	"google.golang.org/protobuf/internal/verifhook"
	"google.golang.org/protobuf/proto"
)

// Module "lazyconc" (C18), gated replay:
//
//	{progs: ["getter"|"refl"|"raw"...], steps: [{r, at, obs}...]} -> out {ok, why}
//
// Reader r (1-based) runs its program on one freshly (lazily) unmarshaled opaque lazy_tree.Node whose
// field 99 is deferred.  Every reader is parked at each gate of the protocol; the schedule releases
// one reader per step, which then runs to its next gate.  The gate it was parked at and what it
// observed must be what the specification (LazyConc) says; afterwards all readers are run to
// completion and the final results are checked (same instance, one winner).
func init() {
	core.Register(&core.Module{Name: "lazyconc", Exec: lazyExec, Gen: lazyGen, Sequential: true})
	core.Register(&core.Module{Name: "lazyfree", Exec: freeExec, Gen: freeGen, Sequential: true})
}

func goid() int64 {
	var buf [64]byte
	n := runtime.Stack(buf[:], false)
	b := buf[len("goroutine "):n]
	b = b[:bytes.IndexByte(b, ' ')]
	id, _ := strconv.ParseInt(string(b), 10, 64)
	return id
}

// lazyPresenceIndex is the presence-bit index of lazy_tree.Node.nested (field 99), see the generated getter.
const lazyPresenceIndex = 0

var gateName = map[int]string{verifhook.LazyPresent: "P", verifhook.LazyBeforeLoad: "L", verifhook.IndexBeforeLoad: "IL",
	verifhook.IndexBeforeStore: "IS", verifhook.LazyBeforeCAS: "C", verifhook.LazyBeforeGet: "G"}

type arrival struct {
	r    int
	gate string // "" = finished
}

type ctl struct {
	mu      sync.Mutex
	reader  map[int64]int
	gates   []chan struct{}
	arrived chan arrival
	obs     [][][3]uintptr // per reader: after-events (ev, a, id)
	mine    []uintptr      // per reader: the object it decoded (identity reported at the compare-and-swap gate)
}

func (c *ctl) hook(ev int, a, b uintptr, id uintptr) {
	c.mu.Lock()
	r, ok := c.reader[goid()]
	c.mu.Unlock()
	if !ok {
		return
	}
	if ev == verifhook.LazyPresent && a != lazyPresenceIndex {
		return // presence check of another field: not a step of this protocol
	}
	if g, isGate := gateName[ev]; isGate {
		if ev == verifhook.LazyBeforeCAS {
			c.mine[r] = id
		}
		c.arrived <- arrival{r, g}
		<-c.gates[r]
		return
	}
	c.obs[r] = append(c.obs[r], [3]uintptr{uintptr(ev), a, id})
}

// lazyInput builds the wire image the readers share. kind "one" (default): the lazy field occurs once, so the lazy
// index has one entry for it; kind "split": it occurs twice with another field in between (nested{int32:7},
// int32:1, nested{int64:9}), so lazyUnmarshal takes its multiple-entries branch and merges both occurrences into the
// private object before the compare-and-swap. The publication protocol of LazyConc is the same for both shapes.
func lazyInput(kind string) []byte {
	enc := func(fill func(outer *lazyopaque.Node)) []byte {
		outer := &lazyopaque.Node{}
		fill(outer)
		b, err := proto.Marshal(outer)
		if err != nil {
			panic(err)
		}
		return b
	}
	n7 := func(outer *lazyopaque.Node) {
		inner := &lazyopaque.Node{}
		inner.SetInt32(7)
		outer.SetNested(inner)
	}
	one := func(outer *lazyopaque.Node) { outer.SetInt32(1) }
	if kind == "split" {
		n9 := func(outer *lazyopaque.Node) {
			inner := &lazyopaque.Node{}
			inner.SetInt64(9)
			outer.SetNested(inner)
		}
		return append(append(enc(n7), enc(one)...), enc(n9)...)
	}
	return enc(func(outer *lazyopaque.Node) { n7(outer); one(outer) })
}

func inputKind(c core.Case) string {
	if v, ok := c["input"]; ok && v != nil {
		return core.Str(v)
	}
	return "one"
}

// runProg is what reader r does; it returns the identity of the submessage it obtained (0 for "raw").
func runProg(prog string, m *lazyopaque.Node) uintptr {
	switch prog {
	case "getter":
		return uintptr(unsafe.Pointer(m.GetNested()))
	case "refl":
		fd := m.ProtoReflect().Descriptor().Fields().ByNumber(99)
		sub := m.ProtoReflect().Get(fd).Message().Interface().(*lazyopaque.Node)
		return uintptr(unsafe.Pointer(sub))
	case "raw":
		_ = proto.Size(m)
		return 0
	}
	panic("harness: unknown program " + prog)
}

func lazyExec(c core.Case) core.Case {
	var progs []string
	for _, p := range core.List(c["progs"]) {
		progs = append(progs, core.Str(p))
	}
	n := len(progs)
	m := &lazyopaque.Node{}
	if err := proto.Unmarshal(lazyInput(inputKind(c)), m); err != nil {
		panic(err)
	}
	k := &ctl{reader: map[int64]int{}, gates: make([]chan struct{}, n), arrived: make(chan arrival), obs: make([][][3]uintptr, n), mine: make([]uintptr, n)}
	for i := range k.gates {
		k.gates[i] = make(chan struct{})
	}
	verifhook.Set(k.hook)
	defer verifhook.Set(nil)
	rets := make([]uintptr, n)
	pos := make([]string, n) // "init", gate name, or "done"
	for i := range pos {
		pos[i] = "init"
	}
	why := ""
	fail := func(f string, a ...any) {
		if why == "" {
			why = fmt.Sprintf(f, a...)
		}
	}
	// advance runs reader r from where it is parked to its next gate (or to the end) and returns the observations made on the way
	advance := func(r int) [][3]uintptr {
		before := len(k.obs[r])
		if pos[r] == "init" {
			go func() {
				k.mu.Lock()
				k.reader[goid()] = r
				k.mu.Unlock()
				rets[r] = runProg(progs[r], m)
				k.arrived <- arrival{r, ""}
			}()
		} else {
			k.gates[r] <- struct{}{}
		}
		select {
		case a := <-k.arrived:
			if a.r != r {
				fail("reader %d moved while reader %d was scheduled", a.r+1, r+1)
			}
			if a.gate == "" {
				pos[a.r] = "done"
			} else {
				pos[a.r] = a.gate
			}
		case <-time.After(10 * time.Second):
			fail("reader %d did not reach its next gate", r+1)
		}
		return k.obs[r][before:]
	}
	find := func(obs [][3]uintptr, ev int) (uintptr, uintptr, bool) {
		for _, o := range obs {
			if int(o[0]) == ev {
				return o[1], o[2], true
			}
		}
		return 0, 0, false
	}
	winners := 0
	for i, st := range core.List(c["steps"]) {
		s := core.Map(st)
		r, at, want := core.Int(s["r"])-1, core.Str(s["at"]), core.Int(s["obs"])
		if pos[r] != at {
			fail("step %d: reader %d is parked at %q, the specification expects %q", i+1, r+1, pos[r], at)
			break
		}
		obs := advance(r)
		if why != "" {
			break
		}
		got := -1
		switch at {
		case "init":
			got = 0
		case "P":
			// the getter always continues to its nil check; the reflection path checks at once
			if progs[r] == "getter" || pos[r] == "IL" {
				got = 1
			} else {
				got = 0
			}
		case "IS":
			got = 1
		case "L":
			if pos[r] == "IL" { // saw nil: entered lazyUnmarshal
				got = 1
			} else {
				got = 0
			}
		case "IL":
			a, _, ok := find(obs, verifhook.IndexAfterLoad)
			if !ok {
				fail("step %d: no index load observed", i+1)
			}
			got = int(a)
		case "C":
			a, _, ok := find(obs, verifhook.LazyAfterCAS)
			if !ok {
				fail("step %d: no compare-and-swap observed", i+1)
			}
			got = int(a)
			winners += got
		case "G":
			// did the getter return the object this reader decoded itself?
			_, id, ok := find(obs, verifhook.LazyAfterGet)
			if !ok {
				fail("step %d: no final load observed", i+1)
			}
			if k.mine[r] != 0 && id == k.mine[r] {
				got = 1
			} else {
				got = 0
			}
		}
		if got != want && why == "" { // DEBUGPOS
			fail("step %d: reader %d at %s -> now %q obs %v: observed %d, the specification says %d", i+1, r+1, at, pos[r], obs, got, want)
		}
		if got != want && why == "" {
			fail("step %d: reader %d at %s observed %d, the specification says %d", i+1, r+1, at, got, want)
		}
	}
	// run everything to completion, round robin
	for guard := 0; guard < 1000 && why == ""; guard++ {
		alive := false
		for r := 0; r < n; r++ {
			if pos[r] != "done" {
				alive = true
				at := pos[r]
				obs := advance(r)
				if at == "C" {
					if a, _, ok := find(obs, verifhook.LazyAfterCAS); ok {
						winners += int(a)
					}
				}
			}
		}
		if !alive {
			break
		}
	}
	if why == "" {
		var inst uintptr
		objReaders := 0
		for r := 0; r < n; r++ {
			if progs[r] == "raw" {
				continue
			}
			objReaders++
			if rets[r] == 0 {
				fail("reader %d obtained a nil submessage", r+1)
			}
			if inst == 0 {
				inst = rets[r]
			} else if rets[r] != inst {
				fail("readers obtained different submessage instances")
			}
		}
		if objReaders > 0 && winners != 1 {
			fail("%d compare-and-swap operations succeeded", winners)
		}
		if objReaders > 0 && why == "" {
			sub := (*lazyopaque.Node)(unsafe.Pointer(inst))
			if got := sub.GetInt32(); got != 7 {
				fail("published submessage has content %d, want 7", got)
			}
			if inputKind(c) == "split" && why == "" {
				if got := sub.GetInt64(); got != 9 {
					fail("published submessage lacks the second occurrence: int64 = %d, want 9", got)
				}
			}
		}
	}
	return core.Case{"ok": why == "", "why": why}
}

// lazyGen: random schedules (reader choice at every step is drawn, the expected observations are not known,
// so these cases carry no steps: they only run N readers under a random gate order and check the final state).
func lazyGen(r *rand.Rand, n int, emit func(core.Case)) {
	progs := []string{"getter", "refl", "raw"}
	for i := 0; i < n; i++ {
		k := 2 + r.IntN(3)
		var ps []any
		for j := 0; j < k; j++ {
			ps = append(ps, progs[r.IntN(3)])
		}
		emit(core.Case{"progs": ps, "steps": []any{}, "input": []string{"one", "split"}[r.IntN(2)]})
	}
}

// ---------------------------------------------------------------- free running (C->S)

// Module "lazyfree": N goroutines run read-only operations concurrently on one shared lazily decoded
// message, without gating; each reader's own observation sequence (program order) is recorded:
//
//	{progs: [...], seed} -> out {obs: [[[at, v]...] per reader], rets: [class per reader], same, seq}
//
// Trace_LazyConc searches for an interleaving of the readers' sequences that LazyConc allows.
type freeRec struct {
	mu     sync.Mutex
	reader map[int64]int
	obs    [][][2]int
	mine   []uintptr
}

func (f *freeRec) hook(ev int, a, b uintptr, id uintptr) {
	f.mu.Lock()
	r, ok := f.reader[goid()]
	f.mu.Unlock()
	if !ok {
		return
	}
	switch ev {
	case verifhook.IndexAfterLoad:
		f.obs[r] = append(f.obs[r], [2]int{2, int(a)})
	case verifhook.IndexAfterStore:
		f.obs[r] = append(f.obs[r], [2]int{3, 1})
	case verifhook.LazyBeforeCAS:
		f.mine[r] = id
	case verifhook.LazyAfterCAS:
		f.obs[r] = append(f.obs[r], [2]int{4, int(a)})
	}
}

var freeSeq atomic.Int64

func freeExec(c core.Case) core.Case {
	var progs []string
	for _, p := range core.List(c["progs"]) {
		progs = append(progs, core.Str(p))
	}
	n := len(progs)
	m := &lazyopaque.Node{}
	if err := proto.Unmarshal(lazyInput(inputKind(c)), m); err != nil {
		panic(err)
	}
	f := &freeRec{reader: map[int64]int{}, obs: make([][][2]int, n), mine: make([]uintptr, n)}
	verifhook.Set(f.hook)
	defer verifhook.Set(nil)
	rets := make([]uintptr, n)
	var wg sync.WaitGroup
	start := make(chan struct{})
	for r := 0; r < n; r++ {
		wg.Add(1)
		go func(r int) {
			defer wg.Done()
			f.mu.Lock()
			f.reader[goid()] = r
			f.mu.Unlock()
			<-start
			if core.Int(c["yield"]) > 0 && r%2 == 1 {
				runtime.Gosched()
			}
			rets[r] = runProg(progs[r], m)
		}(r)
	}
	close(start)
	wg.Wait()
	// result classes: 0 = raw / none, otherwise the 1-based reader whose object was obtained (0 if nobody's)
	out := make([]any, n)
	obs := make([]any, n)
	for r := 0; r < n; r++ {
		cls := 0
		if progs[r] != "raw" {
			cls = -1
			for w := 0; w < n; w++ {
				if f.mine[w] != 0 && f.mine[w] == rets[r] {
					cls = w + 1
				}
			}
		}
		out[r] = cls
		var seq []any
		for _, o := range f.obs[r] {
			seq = append(seq, []any{o[0], o[1]})
		}
		if seq == nil {
			seq = []any{}
		}
		obs[r] = seq
	}
	return core.Case{"obs": obs, "rets": out}
}

func freeGen(r *rand.Rand, n int, emit func(core.Case)) {
	progs := []string{"getter", "getter", "refl", "raw"}
	for i := 0; i < n; i++ {
		k := 2 + r.IntN(3)
		var ps []any
		for j := 0; j < k; j++ {
			ps = append(ps, progs[r.IntN(len(progs))])
		}
		emit(core.Case{"progs": ps, "yield": r.IntN(2), "input": []string{"one", "split"}[r.IntN(2)]})
	}
}
