package conc

import (
	"fmt"
	"hash/fnv"
	"math/rand/v2"
	"sort"
	"sync"

	"google.golang.org/protobuf/encoding/protojson"
	"google.golang.org/protobuf/encoding/prototext"
	"google.golang.org/protobuf/internal/verifh/core"
	"google.golang.org/protobuf/proto"
	"google.golang.org/protobuf/reflect/protoreflect"
	"google.golang.org/protobuf/reflect/protoregistry"
)

// Module "firstuse" (C19, free running).  ONE case per process: {seed, g, frac} -> out {digs: [[name, digest]...], n}
// g goroutines (g = 1: the sequential reference) make first use of a seeded subset of the registered
// message types, enums, extensions and files, each computing a digest of everything it observes
// (descriptor accessors incl. lazily initialised ones, defaults, Size/Marshal/JSON/text of a new message,
// registry lookups).  FirstUseMemo checks that every (name, digest) pair equals the sequential one.
func init() {
	core.Register(&core.Module{Name: "firstuse", Exec: firstUseExec, Gen: func(r *rand.Rand, n int, emit func(core.Case)) {
		for i := 0; i < n; i++ {
			emit(core.Case{"seed": r.IntN(1 << 30), "g": 1 + r.IntN(16), "frac": 1 + r.IntN(4)})
		}
	}, Sequential: true})
}

func digestMessageType(mt protoreflect.MessageType) string {
	h := fnv.New64a()
	md := mt.Descriptor()
	fmt.Fprint(h, md.FullName(), md.Syntax(), md.IsMapEntry(), md.Fields().Len(), md.Oneofs().Len(), md.ExtensionRanges().Len(),
		md.RequiredNumbers().Len(), md.ReservedNames().Len(), md.ParentFile().Path())
	for i := 0; i < md.Fields().Len(); i++ {
		fd := md.Fields().Get(i)
		fmt.Fprint(h, fd.Name(), fd.Number(), fd.Kind(), fd.Cardinality(), fd.HasPresence(), fd.IsPacked(), fd.JSONName(), fd.TextName(),
			fd.HasDefault(), fd.Default().String(), fd.IsMap(), fd.IsList(), fd.Index())
		if fd.Message() != nil {
			fmt.Fprint(h, fd.Message().FullName())
		}
		if fd.Enum() != nil {
			fmt.Fprint(h, fd.Enum().FullName(), fd.Enum().Values().Len())
		}
		if md.Fields().ByNumber(fd.Number()) != fd || md.Fields().ByName(fd.Name()) != fd {
			fmt.Fprint(h, "LOOKUP-MISMATCH")
		}
	}
	m := mt.New()
	fmt.Fprint(h, proto.Size(m.Interface()), proto.CheckInitialized(m.Interface()) == nil)
	b, err := proto.MarshalOptions{AllowPartial: true, Deterministic: true}.Marshal(m.Interface())
	fmt.Fprint(h, b, err)
	j, err := protojson.MarshalOptions{AllowPartial: true}.Marshal(m.Interface())
	fmt.Fprint(h, len(j) > 0, err != nil)
	fmt.Fprint(h, prototext.MarshalOptions{AllowPartial: true}.Format(m.Interface()))
	m.Range(func(fd protoreflect.FieldDescriptor, v protoreflect.Value) bool {
		fmt.Fprint(h, "POPULATED")
		return true
	})
	// set and read back the first scalar field
	for i := 0; i < md.Fields().Len(); i++ {
		fd := md.Fields().Get(i)
		if fd.Cardinality() != protoreflect.Repeated && fd.Message() == nil && fd.ContainingOneof() == nil {
			m.Set(fd, fd.Default())
			fmt.Fprint(h, m.Has(fd), m.Get(fd).String())
			m.Clear(fd)
			break
		}
	}
	c := proto.Clone(m.Interface())
	fmt.Fprint(h, proto.Equal(c, m.Interface()))
	return fmt.Sprintf("%016x", h.Sum64())
}

func digestFile(fd protoreflect.FileDescriptor) string {
	h := fnv.New64a()
	fmt.Fprint(h, fd.Path(), fd.Package(), fd.Syntax(), fd.Imports().Len(), fd.Messages().Len(), fd.Enums().Len(), fd.Extensions().Len(), fd.Services().Len())
	optBytes := func(o protoreflect.ProtoMessage) []byte {
		b, _ := proto.MarshalOptions{Deterministic: true, AllowPartial: true}.Marshal(o)
		return b
	}
	fmt.Fprint(h, optBytes(fd.Options()))
	var walk func(mds protoreflect.MessageDescriptors)
	walk = func(mds protoreflect.MessageDescriptors) {
		for i := 0; i < mds.Len(); i++ {
			md := mds.Get(i)
			fmt.Fprint(h, md.FullName(), md.Fields().Len(), optBytes(md.Options()))
			for j := 0; j < md.Fields().Len(); j++ {
				f := md.Fields().Get(j)
				fmt.Fprint(h, f.FullName(), f.JSONName(), f.Default().String(), optBytes(f.Options()))
			}
			for j := 0; j < md.Enums().Len(); j++ {
				ed := md.Enums().Get(j)
				fmt.Fprint(h, ed.FullName(), optBytes(ed.Options()))
				for k := 0; k < ed.Values().Len(); k++ {
					fmt.Fprint(h, optBytes(ed.Values().Get(k).Options()))
				}
			}
			walk(md.Messages())
		}
	}
	walk(fd.Messages())
	for i := 0; i < fd.Services().Len(); i++ {
		sd := fd.Services().Get(i)
		for j := 0; j < sd.Methods().Len(); j++ {
			md := sd.Methods().Get(j)
			fmt.Fprint(h, md.FullName(), md.Input().FullName(), md.Output().FullName())
		}
	}
	return fmt.Sprintf("%016x", h.Sum64())
}

func firstUseExec(c core.Case) core.Case {
	seed, g, frac := uint64(core.Int(c["seed"])), core.Int(c["g"]), core.Int(c["frac"])
	type item struct {
		name string
		run  func() string
	}
	var items []item
	protoregistry.GlobalTypes.RangeMessages(func(mt protoreflect.MessageType) bool {
		items = append(items, item{"msg:" + string(mt.Descriptor().FullName()), func() string { return digestMessageType(mt) }})
		return true
	})
	protoregistry.GlobalTypes.RangeEnums(func(et protoreflect.EnumType) bool {
		items = append(items, item{"enum:" + string(et.Descriptor().FullName()), func() string {
			h := fnv.New64a()
			ed := et.Descriptor()
			fmt.Fprint(h, ed.FullName(), ed.Values().Len(), ed.IsClosed())
			for i := 0; i < ed.Values().Len(); i++ {
				v := ed.Values().Get(i)
				fmt.Fprint(h, v.Name(), v.Number(), ed.Values().ByNumber(v.Number()).Name(), et.New(v.Number()).Number())
			}
			return fmt.Sprintf("%016x", h.Sum64())
		}})
		return true
	})
	protoregistry.GlobalTypes.RangeExtensions(func(xt protoreflect.ExtensionType) bool {
		items = append(items, item{"ext:" + string(xt.TypeDescriptor().FullName()), func() string {
			h := fnv.New64a()
			xd := xt.TypeDescriptor()
			fmt.Fprint(h, xd.FullName(), xd.Number(), xd.Kind(), xd.Cardinality(), xd.ContainingMessage().FullName(), xt.Zero().IsValid(), xd.Default().String())
			if got, err := protoregistry.GlobalTypes.FindExtensionByNumber(xd.ContainingMessage().FullName(), xd.Number()); err != nil || got != xt {
				fmt.Fprint(h, "REGISTRY-MISMATCH")
			}
			return fmt.Sprintf("%016x", h.Sum64())
		}})
		return true
	})
	protoregistry.GlobalFiles.RangeFiles(func(fd protoreflect.FileDescriptor) bool {
		items = append(items, item{"file:" + fd.Path(), func() string { return digestFile(fd) }})
		return true
	})
	sort.Slice(items, func(i, j int) bool { return items[i].name < items[j].name })
	// the seeded subset and order (every goroutine works through the same list, offset differently, so that the
	// same item's first use is contended)
	r := rand.New(rand.NewPCG(seed, 7))
	var chosen []item
	for _, it := range items {
		if r.IntN(frac) == 0 {
			chosen = append(chosen, it)
		}
	}
	r.Shuffle(len(chosen), func(i, j int) { chosen[i], chosen[j] = chosen[j], chosen[i] })
	results := make([]map[string]string, g)
	panics := make([]string, g)
	var wg sync.WaitGroup
	start := make(chan struct{})
	for w := 0; w < g; w++ {
		wg.Add(1)
		go func(w int) {
			defer wg.Done()
			defer func() {
				if p := recover(); p != nil {
					panics[w] = fmt.Sprint(p)
				}
			}()
			res := map[string]string{}
			results[w] = res
			<-start
			for k := range chosen {
				it := chosen[(k+w*3)%len(chosen)]
				res[it.name] = it.run()
			}
		}(w)
	}
	close(start)
	wg.Wait()
	digs := map[string]any{}
	conflicts := []any{}
	for w := 0; w < g; w++ {
		if panics[w] != "" {
			return core.Case{"panic": panics[w], "stack": ""}
		}
		for n, d := range results[w] {
			if prev, ok := digs[n]; ok && prev != d {
				conflicts = append(conflicts, n)
			}
			digs[n] = d
		}
	}
	digs["-"] = "-" // never an empty JSON object
	return core.Case{"digs": digs, "conflicts": conflicts, "n": len(chosen)}
}
