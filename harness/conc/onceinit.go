package conc

import (
	"fmt"
	"math/rand/v2"
	"sort"
	"sync"
	"time"
	"unsafe"

	"google.golang.org/protobuf/internal/impl"
	"google.golang.org/protobuf/internal/verifh/core"
	"google.golang.org/protobuf/internal/verifhook"
	"google.golang.org/protobuf/proto"
	"google.golang.org/protobuf/reflect/protoreflect"
	"google.golang.org/protobuf/reflect/protoregistry"
)

// Module "onceinit" (C19), gated replay of the OnceInit specification on impl.MessageInfo.init:
//
//	{g, flag0, steps: [{p, at, obs}...]} -> out {ok, why, type}
//
// Every case consumes one message type that this process has not used yet (first use happens once per
// type and process).  Goroutine p performs a first use of the type (proto.Size of a new message, then a
// reflective read); it is parked at the gates of init/initOnce.  A goroutine waiting for the mutex is
// not parked at a gate: it shows up at gate "L" by itself once the mutex is released, which the
// specification schedules as the separate step Acquire.
func init() {
	core.Register(&core.Module{Name: "onceinit", Exec: onceExec, Gen: onceGen, Sequential: true})
}

var (
	freshOnce  sync.Once
	freshTypes []protoreflect.MessageType
	freshNext  int
)

// nextFreshType hands out generated message types in a fixed order, each at most once per process.
func nextFreshType() protoreflect.MessageType {
	freshOnce.Do(func() {
		protoregistry.GlobalTypes.RangeMessages(func(mt protoreflect.MessageType) bool {
			if _, ok := mt.(*impl.MessageInfo); ok && !mt.Descriptor().IsMapEntry() {
				freshTypes = append(freshTypes, mt)
			}
			return true
		})
		sort.Slice(freshTypes, func(i, j int) bool {
			return freshTypes[i].Descriptor().FullName() < freshTypes[j].Descriptor().FullName()
		})
	})
	if freshNext >= len(freshTypes) {
		return nil
	}
	mt := freshTypes[freshNext]
	freshNext++
	return mt
}

type onceArrival struct {
	p    int
	gate string
	a, b uintptr
}

type onceCtl struct {
	mu      sync.Mutex
	proc    map[int64]int
	target  uintptr
	passedF []bool
	sawL1   []bool // file target: the re-check under the lock found the structures built
	file    bool
	gates   []chan struct{}
	arrived chan onceArrival
}

func (c *onceCtl) hook(ev int, a, b uintptr, id uintptr) {
	if id != c.target {
		return // initialisation of another (nested) type
	}
	c.mu.Lock()
	p, ok := c.proc[goid()]
	c.mu.Unlock()
	if !ok {
		return
	}
	gate := ""
	switch ev {
	case verifhook.InitFastPath:
		if c.passedF[p] {
			return // only the first check of this goroutine is a step of the schedule
		}
		c.passedF[p] = true
		gate = "F"
	case verifhook.InitLocked:
		gate = "L"
		if c.file && a == 1 {
			c.sawL1[p] = true
		}
	case verifhook.InitBodyDone:
		gate = fmt.Sprintf("B%d", a)
		a = b // observation: the flag value while the body runs
	case verifhook.InitBeforeStore:
		if c.file && c.sawL1[p] {
			// filedesc.File.lazyInitOnce stores the flag again (idempotently) on the path on which the re-check
			// found the work done; the specification returns from Locked directly, so this is not a step
			return
		}
		gate = "S" // a: tables ready
	default:
		return
	}
	c.arrived <- onceArrival{p, gate, a, b}
	<-c.gates[p]
}

func firstUse(mt protoreflect.MessageType) (ok bool, why string) {
	defer func() {
		if r := recover(); r != nil {
			ok, why = false, fmt.Sprint("panic during first use: ", r)
		}
	}()
	m := mt.New()
	if n := proto.Size(m.Interface()); n != 0 {
		return false, fmt.Sprintf("Size of a new message = %d", n)
	}
	fds := m.Descriptor().Fields()
	for i := 0; i < fds.Len(); i++ {
		if m.Has(fds.Get(i)) {
			return false, "a new message has a populated field"
		}
	}
	if _, err := proto.Marshal(m.Interface()); err != nil && fds.Len() == 0 {
		return false, err.Error()
	}
	return true, ""
}

func onceExec(c core.Case) core.Case {
	g := core.Int(c["g"])
	var (
		name   string
		target uintptr
		use    func() (bool, string)
	)
	isFile := c["target"] != nil && core.Str(c["target"]) == "file"
	if isFile {
		fd, want, n := nextFreshFile()
		name, target = n, fileID(fd)
		use = func() (bool, string) { return useFile(fd, want) }
	} else {
		mt := nextFreshType()
		if mt == nil {
			return core.Case{"ok": true, "why": "", "type": "", "skipped": true}
		}
		name, target = string(mt.Descriptor().FullName()), uintptr(mtID(mt))
		use = func() (bool, string) { return firstUse(mt) }
	}
	if core.Int(c["flag0"]) == 1 {
		use() // initialised before the goroutines start
	}
	k := &onceCtl{proc: map[int64]int{}, target: target, passedF: make([]bool, g), sawL1: make([]bool, g), file: isFile, gates: make([]chan struct{}, g),
		arrived: make(chan onceArrival, 4*g)}
	for i := range k.gates {
		k.gates[i] = make(chan struct{}, 1)
	}
	verifhook.Set(k.hook)
	defer verifhook.Set(nil)
	pos := make([]string, g)
	arg := make([]uintptr, g) // observation carried by the gate the goroutine is parked at
	for i := range pos {
		pos[i] = "init"
	}
	useOK := make([]bool, g)
	useWhy := make([]string, g)
	finished := make(chan int, g)
	why := ""
	fail := func(f string, a ...any) {
		if why == "" {
			why = fmt.Sprintf(f, a...)
		}
	}
	// absorb records every arrival that is pending within d
	absorb := func(d time.Duration) {
		t := time.After(d)
		for {
			select {
			case a := <-k.arrived:
				pos[a.p], arg[a.p] = a.gate, a.a
			case p := <-finished:
				pos[p] = "done"
			case <-t:
				return
			}
		}
	}
	// release lets goroutine p run on and waits until IT parks again or finishes (others may arrive meanwhile)
	release := func(p int) {
		was := pos[p]
		if was == "init" {
			go func() {
				k.mu.Lock()
				k.proc[goid()] = p
				k.mu.Unlock()
				useOK[p], useWhy[p] = use()
				finished <- p
			}()
		} else {
			k.gates[p] <- struct{}{}
		}
		pos[p] = "running"
		deadline := time.After(300 * time.Millisecond)
		for pos[p] == "running" {
			select {
			case a := <-k.arrived:
				pos[a.p], arg[a.p] = a.gate, a.a
			case q := <-finished:
				pos[q] = "done"
			case <-deadline:
				pos[p] = "lock" // neither parked nor finished: it is waiting for the mutex
			}
		}
	}
	for i, st := range core.List(c["steps"]) {
		s := core.Map(st)
		p, at, want := core.Int(s["p"])-1, core.Str(s["at"]), core.Int(s["obs"])
		if at == "lock" {
			// Acquire: the waiter got the mutex by itself when it was released; it must now be parked at L
			absorb(50 * time.Millisecond)
			if pos[p] != "L" {
				fail("step %d: goroutine %d should have acquired the mutex (parked at L), is %q", i+1, p+1, pos[p])
				break
			}
			continue
		}
		if pos[p] != at && !(at == "L" && pos[p] == "L") {
			fail("step %d: goroutine %d is at %q, the specification expects %q", i+1, p+1, pos[p], at)
			break
		}
		got := -1
		switch at {
		case "init":
			release(p)
			got = 0
		case "F":
			release(p)
			// flag seen on the lock-free path: 1 iff the goroutine went straight on to use the tables
			if pos[p] == "done" {
				got = 1
			} else {
				got = 0
			}
		case "L":
			got = int(arg[p]) // flag value seen under the lock
			release(p)
		case "S":
			got = int(arg[p]) // tables complete at the moment of publication
			release(p)
		default: // B1, B2: flag value while the body runs
			got = int(arg[p])
			release(p)
		}
		if got != want {
			fail("step %d: goroutine %d at %s observed %d, the specification says %d (now %q)", i+1, p+1, at, got, want, pos[p])
			break
		}
		// a goroutine that saw the flag set (on either path), or that has just published it, returns: the body
		// must not run again (BodyOnce)
		if ((at == "L" || at == "F") && want == 1 || at == "S") && pos[p] != "done" {
			fail("step %d: goroutine %d at %s should return and use the tables, but it is now at %q (body executed again?)", i+1, p+1, at, pos[p])
			break
		}
		if pos[p] == "done" && !useOK[p] {
			fail("step %d: goroutine %d used the type right after init returned: %s", i+1, p+1, useWhy[p])
			break
		}
	}
	// run everything to completion
	for guard := 0; guard < 200; guard++ {
		absorb(5 * time.Millisecond)
		alive := false
		for p := 0; p < g; p++ {
			switch pos[p] {
			case "done":
			case "lock", "running":
				alive = true
			default:
				alive = true
				release(p)
			}
		}
		if !alive {
			break
		}
	}
	for p := 0; p < g; p++ {
		if pos[p] != "done" {
			fail("goroutine %d did not finish (%s)", p+1, pos[p])
		} else if !useOK[p] {
			fail("goroutine %d: %s", p+1, useWhy[p])
		}
	}
	return core.Case{"ok": why == "", "why": why, "type": name}
}

func mtID(mt protoreflect.MessageType) uintptr {
	return uintptr(unsafe.Pointer(mt.(*impl.MessageInfo)))
}

func onceGen(r *rand.Rand, n int, emit func(core.Case)) {
	for i := 0; i < n; i++ {
		c := core.Case{"g": 2 + r.IntN(3), "flag0": r.IntN(4) / 3, "steps": []any{}}
		if r.IntN(2) == 0 {
			c["target"] = "file"
		}
		emit(c)
	}
}
