package wkt

import (
	"encoding/json"
	"math/rand/v2"
	"strconv"
	"strings"
	"time"

	"google.golang.org/protobuf/encoding/protojson"
	"google.golang.org/protobuf/internal/verifh/core"
	"google.golang.org/protobuf/proto"
	"google.golang.org/protobuf/types/known/durationpb"
	"google.golang.org/protobuf/types/known/timestamppb"

	pb2 "google.golang.org/protobuf/internal/testprotos/textpb2"
)

// Module "wkt" (C23): protojson on the well-known types.
//
//	{op: durparse | tsparse, s}          -> {ok, secs, nanos, same}
//	{op: durfmt | tsfmt, secs, nanos}    -> {ok, str, rt, same}
//	... (forms.go: FieldMask, wrappers, Struct/Value/ListValue, Empty, Any)
//
// same: the message behaves identically as a field of the container textpb2.KnownTypes.
// rt:   protojson.Unmarshal of the produced JSON gives the message back.
func init() {
	core.Register(&core.Module{Name: "wkt", Exec: wktExec, Gen: wktGen})
}

// jsonString renders s as a JSON string literal (s is ASCII in all cases of this module).
func jsonString(s string) string {
	b, err := json.Marshal(s)
	if err != nil {
		panic(err)
	}
	return string(b)
}

func wktExec(c core.Case) core.Case {
	op := core.Str(c["op"])
	switch op {
	case "durparse", "tsparse":
		return timeParse(op == "durparse", unchars(c["s"]))
	case "durfmt", "tsfmt":
		return timeFmt(op == "durfmt", c2i64(c["secs"]), c2i32(c["nanos"]))
	}
	if out := formsExec(op, c); out != nil {
		return out
	}
	panic("harness: unknown wkt op " + op)
}

func secsNanos(m proto.Message) (int64, int32) {
	switch x := m.(type) {
	case *durationpb.Duration:
		return x.GetSeconds(), x.GetNanos()
	case *timestamppb.Timestamp:
		return x.GetSeconds(), x.GetNanos()
	}
	panic("harness: not a time message")
}

func timeParse(dur bool, s string) core.Case {
	out := core.Case{}
	lit := jsonString(s)
	var m proto.Message = &timestamppb.Timestamp{}
	field := "optTimestamp"
	if dur {
		m, field = &durationpb.Duration{}, "optDuration"
	}
	err := protojson.Unmarshal([]byte(lit), m)
	out["ok"] = err == nil
	if err == nil {
		sec, ns := secsNanos(m)
		out["secs"], out["nanos"] = i64c(sec), i64c(int64(ns))
	}
	// the same string as a field of a container
	k := &pb2.KnownTypes{}
	err2 := protojson.Unmarshal([]byte(`{"`+field+`": `+lit+`}`), k)
	same := (err == nil) == (err2 == nil)
	if err == nil && err2 == nil {
		var inner proto.Message = k.GetOptTimestamp()
		if dur {
			inner = k.GetOptDuration()
		}
		same = proto.Equal(inner, m)
	}
	out["same"] = same
	return out
}

func timeFmt(dur bool, secs int64, nanos int32) core.Case {
	out := core.Case{}
	var m proto.Message = &timestamppb.Timestamp{Seconds: secs, Nanos: nanos}
	k := &pb2.KnownTypes{}
	if dur {
		d := &durationpb.Duration{Seconds: secs, Nanos: nanos}
		m, k.OptDuration = d, d
	} else {
		k.OptTimestamp = m.(*timestamppb.Timestamp)
	}
	b, err := protojson.Marshal(m)
	out["ok"] = err == nil
	b2, err2 := protojson.Marshal(k)
	same := (err == nil) == (err2 == nil)
	if err == nil {
		var s string
		if e := json.Unmarshal(b, &s); e != nil {
			out["str"] = chars("not a JSON string: " + string(b))
		} else {
			out["str"] = chars(s)
		}
		back := m.ProtoReflect().New().Interface()
		out["rt"] = protojson.Unmarshal(b, back) == nil && proto.Equal(back, m)
		if err2 == nil {
			var obj map[string]json.RawMessage
			same = json.Unmarshal(b2, &obj) == nil && len(obj) == 1
			for _, v := range obj {
				var s2 string
				same = same && json.Unmarshal(v, &s2) == nil && s2 == s
			}
		}
	}
	out["same"] = same
	return out
}

// ---- seeded random cases

var durPieces = []string{"-", "+", ".", "0", "1", "9", "s", " ", "00", "315576000000", "315576000001", "999999999", "0000000001", "1234567890",
	"9223372036854775807", "9223372036854775808", "e", "S", ",", "5"}

func randDurString(r *rand.Rand) string {
	if r.IntN(2) == 0 {
		// structured: sign, integer, fraction, suffix, then possibly damaged
		var b strings.Builder
		b.WriteString([]string{"", "", "-", "+"}[r.IntN(4)])
		switch r.IntN(5) {
		case 0:
		case 1:
			b.WriteString("0")
		case 2:
			b.WriteString(strconv.FormatInt(315576000000-int64(r.IntN(3))+1, 10))
		default:
			b.WriteString(strconv.FormatUint(r.Uint64()>>uint(r.IntN(64)), 10))
		}
		if r.IntN(3) != 0 {
			b.WriteString(".")
			n := r.IntN(11)
			for i := 0; i < n; i++ {
				b.WriteByte(byte('0' + r.IntN(10)))
			}
		}
		b.WriteString("s")
		return damage(r, b.String())
	}
	var b strings.Builder
	for k := 1 + r.IntN(5); k > 0; k-- {
		b.WriteString(durPieces[r.IntN(len(durPieces))])
	}
	return b.String()
}

const damageAlphabet = "0123456789-+.,:TtZzs "

func damage(r *rand.Rand, s string) string {
	for k := r.IntN(3); k > 0 && len(s) > 0; k-- {
		i := r.IntN(len(s))
		c := string(damageAlphabet[r.IntN(len(damageAlphabet))])
		switch r.IntN(3) {
		case 0:
			s = s[:i] + c + s[i:]
		case 1:
			s = s[:i] + c + s[i+1:]
		default:
			s = s[:i] + s[i+1:]
		}
	}
	return s
}

func randTsString(r *rand.Rand) string {
	secs := randNear(r, []int64{-62135596800, 253402300799, 0, 951782400, 1709164800, -2208988800}, -62135596800-90000, 253402300799+90000)
	t := time.Unix(secs, 0).UTC()
	var s string
	if t.Year() >= 0 && t.Year() <= 9999 {
		s = t.Format("2006-01-02T15:04:05")
	} else {
		s = "0001-01-01T00:00:00"
	}
	if r.IntN(8) == 0 { // arbitrary field values, possibly out of range
		s = strconv.Itoa(10000 + r.IntN(10000))[1:] + "-" + strconv.Itoa(100 + r.IntN(14))[1:] + "-" + strconv.Itoa(100 + r.IntN(33))[1:] + "T" +
			strconv.Itoa(100 + r.IntN(25))[1:] + ":" + strconv.Itoa(100 + r.IntN(61))[1:] + ":" + strconv.Itoa(100 + r.IntN(61))[1:]
	}
	if r.IntN(3) != 0 {
		s += "."
		for n := r.IntN(11); n > 0; n-- {
			s += string(byte('0' + r.IntN(10)))
		}
	}
	switch r.IntN(4) {
	case 0, 1:
		s += "Z"
	default:
		s += []string{"+", "-"}[r.IntN(2)] + strconv.Itoa(100 + r.IntN(25))[1:] + ":" + strconv.Itoa(100 + r.IntN(61))[1:]
	}
	return damage(r, s)
}

func wktGen(r *rand.Rand, n int, emit func(core.Case)) {
	for i := 0; i < n; i++ {
		switch k := r.IntN(10); {
		case k < 2:
			emit(core.Case{"op": "durparse", "s": chars(randDurString(r))})
		case k < 5:
			emit(core.Case{"op": "tsparse", "s": chars(randTsString(r))})
		case k < 6:
			secs := randNear(r, []int64{0, 315576000000, -315576000000, 1, -1}, -315576000000-1000, 315576000000+1000)
			emit(core.Case{"op": "durfmt", "secs": i64c(secs), "nanos": i64c(randNanos(r))})
		case k < 7:
			secs := randNear(r, []int64{0, -62135596800, 253402300799, 951782400, 1709164800}, -62135596800-1000, 253402300799+1000)
			emit(core.Case{"op": "tsfmt", "secs": i64c(secs), "nanos": i64c(randNanos(r))})
		default:
			formsGen(r, emit)
		}
	}
}

func randNanos(r *rand.Rand) int64 {
	switch r.IntN(6) {
	case 0:
		return 0
	case 1:
		return int64(r.IntN(1000)) * 1000000 * int64(1-2*r.IntN(2))
	case 2:
		return int64(r.IntN(1000000)) * 1000 * int64(1-2*r.IntN(2))
	case 3:
		return randNear(r, []int64{999999999, -999999999, 1000000000, -1000000000}, -2147483648, 2147483647)
	}
	return int64(r.IntN(1000000000)) * int64(1-2*r.IntN(2))
}
