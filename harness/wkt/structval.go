package wkt

import (
	"encoding/json"
	"fmt"
	"math"
	"math/rand/v2"
	"sort"
	"strconv"
	"strings"
	"sync"

	"google.golang.org/protobuf/internal/encoding/messageset"
	"google.golang.org/protobuf/internal/verifh/core"
	"google.golang.org/protobuf/proto"
	"google.golang.org/protobuf/reflect/protodesc"
	"google.golang.org/protobuf/reflect/protoreflect"
	"google.golang.org/protobuf/reflect/protoregistry"
	"google.golang.org/protobuf/types/descriptorpb"
	"google.golang.org/protobuf/types/dynamicpb"
	"google.golang.org/protobuf/types/known/anypb"
	"google.golang.org/protobuf/types/known/structpb"

	_ "google.golang.org/protobuf/internal/testprotos/enums"
	_ "google.golang.org/protobuf/internal/testprotos/lazy"
	_ "google.golang.org/protobuf/internal/testprotos/required"
	_ "google.golang.org/protobuf/internal/testprotos/test3/test3_hybrid"
	_ "google.golang.org/protobuf/internal/testprotos/testeditions/testeditions_opaque"
	_ "google.golang.org/protobuf/internal/testprotos/textpb3"
	_ "google.golang.org/protobuf/types/pluginpb"
)

// Module "structval" (C45).
//
//	{op: newvalue, v: abstract Go value} -> {ok, val, back, ej, pjok, pj}
//	{op: anyurl, url, n, reg}            -> {name, is, to, new}
//	{op: anyrt, type, other, seed}       -> {url, name, is, isother, to, toother, new}
//	{op: anybox, T, tn, steps}           -> {tn, obs}   (anybox.go: one history of the AnyBox machine)
//	{op: types}                          -> {types: registered message type names usable for anyrt / anybox,
//	                                         facts: which abstract slots each of them has (anybox.go)}
//
// Abstract Go value {g, x}: see spec/wkt/StructVal.tla.
func init() {
	core.Register(&core.Module{Name: "structval", Exec: structvalExec, Gen: structvalGen})
}

func goValue(a A) any {
	x := a["x"]
	xs := core.List(x)
	g := core.Str(a["g"])
	switch g {
	case "nil":
		return nil
	case "bool":
		return core.Int(xs[0]) != 0
	case "int", "int8", "int16", "int32", "int64":
		n, err := strconv.ParseInt(unchars(xs[0]), 10, 64)
		if err != nil {
			panic(err)
		}
		switch g {
		case "int":
			return int(n)
		case "int8":
			return int8(n)
		case "int16":
			return int16(n)
		case "int32":
			return int32(n)
		}
		return n
	case "uint", "uint8", "uint16", "uint32", "uint64":
		n, err := strconv.ParseUint(unchars(xs[0]), 10, 64)
		if err != nil {
			panic(err)
		}
		switch g {
		case "uint":
			return uint(n)
		case "uint8":
			return uint8(n)
		case "uint16":
			return uint16(n)
		case "uint32":
			return uint32(n)
		}
		return n
	case "float32":
		return float32(numOf(core.Map(x)))
	case "float64":
		return numOf(core.Map(x))
	case "jnum":
		return json.Number(unchars(x))
	case "string":
		return unchars(x)
	case "bytes":
		return core.Bytes(x)
	case "map":
		m := map[string]any{}
		for _, p := range xs {
			kv := core.List(p)
			m[unchars(kv[0])] = goValue(core.Map(kv[1]))
		}
		return m
	case "slice":
		s := []any{}
		for _, e := range xs {
			s = append(s, goValue(core.Map(e)))
		}
		return s
	case "bad":
		return []int{1}
	}
	panic("harness: bad Go value kind " + g)
}

func goAbstract(v any) A {
	switch x := v.(type) {
	case nil:
		return A{"g": "nil", "x": []any{}}
	case bool:
		if x {
			return A{"g": "bool", "x": []any{1}}
		}
		return A{"g": "bool", "x": []any{0}}
	case float64:
		return A{"g": "float64", "x": numAbs(x, 64)}
	case string:
		return A{"g": "string", "x": chars(x)}
	case map[string]any:
		keys := make([]string, 0, len(x))
		for k := range x {
			keys = append(keys, k)
		}
		sort.Strings(keys)
		ps := []any{}
		for _, k := range keys {
			ps = append(ps, []any{chars(k), goAbstract(x[k])})
		}
		return A{"g": "map", "x": ps}
	case []any:
		s := []any{}
		for _, e := range x {
			s = append(s, goAbstract(e))
		}
		return A{"g": "slice", "x": s}
	}
	return A{"g": "other:" + fmt.Sprintf("%T", v), "x": []any{}}
}

// ---- synthetic message types with short names (for MessageIs / UnmarshalTo / UnmarshalNew on arbitrary URLs)

var (
	synthMu    sync.Mutex
	synthTypes = map[string]protoreflect.MessageType{}
)

func synthType(full string) protoreflect.MessageType {
	synthMu.Lock()
	defer synthMu.Unlock()
	if mt, ok := synthTypes[full]; ok {
		return mt
	}
	pkg, name := "", full
	if i := strings.LastIndexByte(full, '.'); i >= 0 {
		pkg, name = full[:i], full[i+1:]
	}
	fdp := &descriptorpb.FileDescriptorProto{
		Name:        proto.String("verif/synth/" + full + ".proto"),
		Syntax:      proto.String("proto3"),
		MessageType: []*descriptorpb.DescriptorProto{{Name: proto.String(name)}},
	}
	if pkg != "" {
		fdp.Package = proto.String(pkg)
	}
	fd, err := protodesc.NewFile(fdp, nil)
	if err != nil {
		panic("harness: cannot build synthetic type " + full + ": " + err.Error())
	}
	mt := dynamicpb.NewMessageType(fd.Messages().Get(0))
	synthTypes[full] = mt
	return mt
}

// ---- random message contents for the registered types

func fillMessage(r *rand.Rand, m protoreflect.Message, depth int) {
	fds := m.Descriptor().Fields()
	for i := 0; i < fds.Len(); i++ {
		fd := fds.Get(i)
		required := fd.Cardinality() == protoreflect.Required
		if !required && (r.IntN(3) == 0 || (depth <= 0 && fd.Message() != nil)) {
			continue
		}
		if fd.IsWeak() {
			continue
		}
		switch {
		case fd.IsList():
			l := m.Mutable(fd).List()
			for n := r.IntN(3); n > 0; n-- {
				l.Append(randFieldValue(r, fd, l.NewElement, depth))
			}
		case fd.IsMap():
			mp := m.Mutable(fd).Map()
			for n := r.IntN(3); n > 0; n-- {
				k := randFieldValue(r, fd.MapKey(), nil, depth).MapKey()
				mp.Set(k, randFieldValue(r, fd.MapValue(), mp.NewValue, depth))
			}
		default:
			m.Set(fd, randFieldValue(r, fd, func() protoreflect.Value { return m.NewField(fd) }, depth))
		}
	}
}

func randFieldValue(r *rand.Rand, fd protoreflect.FieldDescriptor, newMsg func() protoreflect.Value, depth int) protoreflect.Value {
	switch fd.Kind() {
	case protoreflect.BoolKind:
		return protoreflect.ValueOfBool(r.IntN(2) == 0)
	case protoreflect.Int32Kind, protoreflect.Sint32Kind, protoreflect.Sfixed32Kind:
		return protoreflect.ValueOfInt32(int32(randU64W(r)))
	case protoreflect.Int64Kind, protoreflect.Sint64Kind, protoreflect.Sfixed64Kind:
		return protoreflect.ValueOfInt64(int64(randU64W(r)))
	case protoreflect.Uint32Kind, protoreflect.Fixed32Kind:
		return protoreflect.ValueOfUint32(uint32(randU64W(r)))
	case protoreflect.Uint64Kind, protoreflect.Fixed64Kind:
		return protoreflect.ValueOfUint64(randU64W(r))
	case protoreflect.FloatKind:
		return protoreflect.ValueOfFloat32([]float32{0, 1.5, -2, float32(math.Inf(1)), float32(math.NaN()), math.MaxFloat32, float32(r.NormFloat64())}[r.IntN(7)])
	case protoreflect.DoubleKind:
		return protoreflect.ValueOfFloat64([]float64{0, 1.5, -2, math.Inf(-1), math.NaN(), math.MaxFloat64, r.NormFloat64(), math.Copysign(0, -1)}[r.IntN(8)])
	case protoreflect.StringKind:
		return protoreflect.ValueOfString([]string{"", "a", "héllo", "\x00\x7f", "type.googleapis.com/x", strings.Repeat("z", r.IntN(40))}[r.IntN(6)])
	case protoreflect.BytesKind:
		return protoreflect.ValueOfBytes(randBytesW(r, 12))
	case protoreflect.EnumKind:
		vs := fd.Enum().Values()
		return protoreflect.ValueOfEnum(vs.Get(r.IntN(vs.Len())).Number())
	case protoreflect.MessageKind, protoreflect.GroupKind:
		v := newMsg()
		fillMessage(r, v.Message(), depth-1)
		return v
	}
	panic("harness: unknown field kind")
}

func randU64W(r *rand.Rand) uint64 {
	n := r.IntN(65)
	if n == 0 {
		return 0
	}
	v := r.Uint64() >> uint(64-n)
	if r.IntN(4) == 0 {
		return ^v
	}
	return v
}

// anyTypes lists the registered generated message types that anypb.New can pack in this build.
func anyTypes() []string {
	var names []string
	protoregistry.GlobalTypes.RangeMessages(func(mt protoreflect.MessageType) bool {
		md := mt.Descriptor()
		if messageset.IsMessageSet(md) || md.IsMapEntry() {
			return true
		}
		names = append(names, string(md.FullName()))
		return true
	})
	sort.Strings(names)
	return names
}

func structvalExec(c core.Case) core.Case {
	out := core.Case{}
	switch op := core.Str(c["op"]); op {
	case "newvalue":
		v := goValue(core.Map(c["v"]))
		val, err := structpb.NewValue(v)
		out["ok"] = err == nil
		if err != nil {
			return out
		}
		out["val"] = projValue(val)
		back := val.AsInterface()
		out["back"] = goAbstract(back)
		if b, err := json.Marshal(back); err == nil {
			out["ej"] = parseJSONText(b)
		} else {
			out["ej"] = node("str", chars("encoding/json failed: "+err.Error()))
		}
		// Value.MarshalJSON is protojson.Marshal
		b, err := val.MarshalJSON()
		out["pjok"] = err == nil
		if err == nil {
			out["pj"] = parseJSONText(b)
		}
	case "anyurl":
		a := &anypb.Any{TypeUrl: unchars(c["url"])}
		out["name"] = chars(string(a.MessageName()))
		dst := synthType(unchars(c["n"])).New().Interface()
		out["is"] = a.MessageIs(dst)
		out["to"] = a.UnmarshalTo(dst) == nil
		types := &protoregistry.Types{}
		for _, n := range core.List(c["reg"]) {
			if err := types.RegisterMessage(synthType(unchars(n))); err != nil {
				panic(err)
			}
		}
		m, err := anypb.UnmarshalNew(a, proto.UnmarshalOptions{Resolver: types})
		out["new"] = err == nil && m != nil
	case "anyrt":
		name := unchars(c["type"])
		mt, err := protoregistry.GlobalTypes.FindMessageByName(protoreflect.FullName(name))
		if err != nil {
			panic("harness: unknown registered type " + name)
		}
		ot, err := protoregistry.GlobalTypes.FindMessageByName(protoreflect.FullName(unchars(c["other"])))
		if err != nil {
			panic("harness: unknown registered type " + unchars(c["other"]))
		}
		r := rand.New(rand.NewPCG(uint64(core.Int(c["seed"])), 0x77696b74))
		m := mt.New()
		fillMessage(r, m, 2)
		src := m.Interface()
		a, err := anypb.New(src)
		if err != nil {
			out["url"] = chars("anypb.New failed: " + err.Error())
			return out
		}
		out["url"] = chars(a.GetTypeUrl())
		out["name"] = chars(string(a.MessageName()))
		out["is"] = a.MessageIs(src)
		other := ot.New().Interface()
		out["isother"] = a.MessageIs(other)
		dst := mt.New().Interface()
		out["to"] = a.UnmarshalTo(dst) == nil && proto.Equal(dst, src)
		out["toother"] = a.UnmarshalTo(other) == nil
		nm, err := a.UnmarshalNew()
		out["new"] = err == nil && nm.ProtoReflect().Descriptor().FullName() == m.Descriptor().FullName() && proto.Equal(nm, src)
	case "types":
		ts := []any{}
		for _, n := range anyTypes() {
			ts = append(ts, chars(n))
		}
		out["types"] = ts
		out["facts"] = boxFacts()
	case "anybox":
		return boxExec(c)
	default:
		panic("harness: unknown structval op " + op)
	}
	return out
}

// ---- seeded random cases

func intAbs(kind string, lit string, image float64) A {
	return A{"g": kind, "x": []any{chars(lit), chars(canonNum(image, 64))}}
}

func randGoAbs(r *rand.Rand, depth int) A {
	k := r.IntN(16)
	if depth <= 0 && k >= 12 {
		k = r.IntN(12)
	}
	switch k {
	case 0:
		return A{"g": "nil", "x": []any{}}
	case 1:
		return A{"g": "bool", "x": []any{r.IntN(2)}}
	case 2, 3:
		switch r.IntN(5) {
		case 0:
			v := int64(int8(r.Uint32()))
			return intAbs("int8", strconv.FormatInt(v, 10), float64(v))
		case 1:
			v := int64(int16(r.Uint32()))
			return intAbs("int16", strconv.FormatInt(v, 10), float64(v))
		case 2:
			v := int64(int32(r.Uint32()))
			return intAbs("int32", strconv.FormatInt(v, 10), float64(v))
		case 3:
			v := randNear(r, []int64{1 << 53, -(1 << 53), math.MaxInt64, math.MinInt64, 0}, math.MinInt64, math.MaxInt64)
			return intAbs("int64", strconv.FormatInt(v, 10), float64(v))
		}
		v := randNear(r, []int64{1 << 53, 0, math.MaxInt64}, math.MinInt64, math.MaxInt64)
		return intAbs("int", strconv.FormatInt(v, 10), float64(v))
	case 4:
		switch r.IntN(4) {
		case 0:
			v := uint64(uint8(r.Uint32()))
			return intAbs("uint8", strconv.FormatUint(v, 10), float64(v))
		case 1:
			v := uint64(uint16(r.Uint32()))
			return intAbs("uint16", strconv.FormatUint(v, 10), float64(v))
		case 2:
			v := uint64(r.Uint32())
			return intAbs("uint32", strconv.FormatUint(v, 10), float64(v))
		}
		v := []uint64{math.MaxUint64, 1<<53 + 1, 1<<53 + 3, r.Uint64(), r.Uint64() >> uint(r.IntN(64))}[r.IntN(5)]
		return intAbs([]string{"uint64", "uint"}[r.IntN(2)], strconv.FormatUint(v, 10), float64(v))
	case 5, 6:
		return A{"g": "float64", "x": randNumAbs(r, r.IntN(3) == 0)}
	case 7:
		f := []float32{0, 0.5, -1.25, 16777216, math.MaxFloat32, float32(math.NaN()), float32(math.Inf(-1)), float32(r.NormFloat64())}[r.IntN(8)]
		return A{"g": "float32", "x": numAbs(float64(f), 64)}
	case 8:
		if r.IntN(4) == 0 {
			return A{"g": "jnum", "x": chars([]string{"abc", "", "1.5s", "--1"}[r.IntN(4)])}
		}
		n := randNumAbs(r, false)
		return A{"g": "jnum", "x": n["d"]}
	case 9, 10:
		s := [][]byte{{}, []byte("a"), []byte("héllo"), {0xff}, {0xed, 0xa0, 0x80}, {0xc0, 0x80}, {0xf4, 0x90, 0x80, 0x80}, []byte("NaN"), []byte("€𝄞"), {0xe2, 0x82}}[r.IntN(10)]
		return A{"g": "string", "x": core.B(s)}
	case 11:
		if r.IntN(6) == 0 {
			return A{"g": "bad", "x": []any{}}
		}
		return A{"g": "bytes", "x": core.B(randBytesW(r, 7))}
	case 12, 13:
		seen := map[string]bool{}
		var keys []string
		for n := r.IntN(4); n > 0; n-- {
			k := []string{"a", "b", "", "é", "\xff", "k1"}[r.IntN(6)]
			if !seen[k] {
				seen[k] = true
				keys = append(keys, k)
			}
		}
		sort.Strings(keys)
		ps := []any{}
		for _, k := range keys {
			ps = append(ps, []any{core.B([]byte(k)), randGoAbs(r, depth-1)})
		}
		return A{"g": "map", "x": ps}
	}
	s := []any{}
	for n := r.IntN(4); n > 0; n-- {
		s = append(s, randGoAbs(r, depth-1))
	}
	return A{"g": "slice", "x": s}
}

func structvalGen(r *rand.Rand, n int, emit func(core.Case)) {
	types := anyTypes()
	urlAlphabet := []string{"a", "b", ".", "/", "ab", "a.b", "type.googleapis.com", "_", "1", ":", "a.b.a"}
	names := []string{"a", "b", "a.b", "ab", "a.b.a", "b1._x"}
	for i := 0; i < n; i++ {
		switch r.IntN(10) {
		case 0, 1, 2, 3:
			emit(core.Case{"op": "newvalue", "v": randGoAbs(r, 3)})
		case 4, 9:
			emit(boxGen(r))
		case 5, 6:
			var b strings.Builder
			for k := r.IntN(6); k > 0; k-- {
				b.WriteString(urlAlphabet[r.IntN(len(urlAlphabet))])
			}
			url := b.String()
			nm := names[r.IntN(len(names))]
			if r.IntN(3) == 0 {
				url += "/" + nm
			}
			reg := []any{}
			for _, x := range names {
				if r.IntN(2) == 0 {
					reg = append(reg, chars(x))
				}
			}
			emit(core.Case{"op": "anyurl", "url": chars(url), "n": chars(nm), "reg": reg})
		default:
			t := types[r.IntN(len(types))]
			o := types[r.IntN(len(types))]
			if o == t {
				o = "google.protobuf.Empty"
				if t == o {
					o = "google.protobuf.Duration"
				}
			}
			emit(core.Case{"op": "anyrt", "type": chars(t), "other": chars(o), "seed": r.IntN(1 << 30)})
		}
	}
}
