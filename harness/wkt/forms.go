package wkt

import (
	"bytes"
	"encoding/json"
	"fmt"
	"math"
	"math/rand/v2"
	"regexp"
	"sort"
	"strconv"
	"strings"

	"google.golang.org/protobuf/encoding/protojson"
	"google.golang.org/protobuf/internal/verifh/core"
	"google.golang.org/protobuf/proto"
	"google.golang.org/protobuf/types/known/anypb"
	"google.golang.org/protobuf/types/known/durationpb"
	"google.golang.org/protobuf/types/known/emptypb"
	"google.golang.org/protobuf/types/known/fieldmaskpb"
	"google.golang.org/protobuf/types/known/structpb"
	"google.golang.org/protobuf/types/known/timestamppb"
	"google.golang.org/protobuf/types/known/wrapperspb"

	test3pb "google.golang.org/protobuf/internal/testprotos/test3"
)

// Forms of module "wkt" (C23): wrappers, Struct/Value/ListValue, Empty, FieldMask, Any.
//
//	{op: tojson,   m: abstract message}        -> {ok, j: abstract JSON of the output, rt: parsing the output gives m back}
//	{op: fromjson, t: type, j: abstract JSON}  -> {ok, m: abstract message}
//
// Abstract JSON {k, v}: null [] | bool [0|1] | num literal chars | str bytes | arr [nodes] | obj [[key, node]...] |
// url [prefix class, type].  Abstract message {t, v}: see spec/wkt/WktForms.tla.

type A = map[string]any

func node(k string, v any) A { return A{"k": k, "v": v} }

var fullNames = map[string]string{
	"BoolValue": "google.protobuf.BoolValue", "Int32Value": "google.protobuf.Int32Value", "Int64Value": "google.protobuf.Int64Value",
	"UInt32Value": "google.protobuf.UInt32Value", "UInt64Value": "google.protobuf.UInt64Value", "FloatValue": "google.protobuf.FloatValue",
	"DoubleValue": "google.protobuf.DoubleValue", "StringValue": "google.protobuf.StringValue", "BytesValue": "google.protobuf.BytesValue",
	"Value": "google.protobuf.Value", "Struct": "google.protobuf.Struct", "ListValue": "google.protobuf.ListValue",
	"Empty": "google.protobuf.Empty", "FieldMask": "google.protobuf.FieldMask", "Duration": "google.protobuf.Duration",
	"Timestamp": "google.protobuf.Timestamp", "Any": "google.protobuf.Any", "Foreign": "goproto.proto.test3.ForeignMessage",
	"NoSuch": "verif.no.such.Type",
}
var shortNames = func() map[string]string {
	m := map[string]string{}
	for k, v := range fullNames {
		m[v] = k
	}
	return m
}()
var urlPrefixes = map[string]string{"std": "type.googleapis.com/", "alt": "example.com/types/", "bare": ""}

func urlText(u []any) string {
	cls, t := core.Str(u[0]), core.Str(u[1])
	if cls == "none" {
		return ""
	}
	return urlPrefixes[cls] + fullNames[t]
}

func urlAbstract(s string) []any {
	if s == "" {
		return []any{"none", "Empty"}
	}
	for cls, p := range urlPrefixes {
		if cls != "bare" && strings.HasPrefix(s, p) {
			if t, ok := shortNames[s[len(p):]]; ok {
				return []any{cls, t}
			}
		}
	}
	if t, ok := shortNames[s]; ok {
		return []any{"bare", t}
	}
	return []any{"raw", "Unknown"}
}

// ---- abstract JSON <-> text

func renderJSON(b *bytes.Buffer, n A) {
	v := core.List(n["v"])
	switch core.Str(n["k"]) {
	case "null":
		b.WriteString("null")
	case "bool":
		if core.Int(v[0]) != 0 {
			b.WriteString("true")
		} else {
			b.WriteString("false")
		}
	case "num":
		b.WriteString(unchars(n["v"]))
	case "str":
		b.WriteString(jsonString(unchars(n["v"])))
	case "url":
		b.WriteString(jsonString(urlText(v)))
	case "arr":
		b.WriteByte('[')
		for i, x := range v {
			if i > 0 {
				b.WriteByte(',')
			}
			renderJSON(b, core.Map(x))
		}
		b.WriteByte(']')
	case "obj":
		b.WriteByte('{')
		for i, x := range v {
			if i > 0 {
				b.WriteByte(',')
			}
			p := core.List(x)
			b.WriteString(jsonString(unchars(p[0])))
			b.WriteByte(':')
			renderJSON(b, core.Map(p[1]))
		}
		b.WriteByte('}')
	default:
		panic("harness: bad abstract JSON kind " + core.Str(n["k"]))
	}
}

// canonNum: integers a double holds exactly print as integers, everything else in shortest form.
func canonNum(v float64, bits int) string {
	if v == math.Trunc(v) && math.Abs(v) <= 1<<53 && !(v == 0 && math.Signbit(v)) {
		return strconv.FormatInt(int64(v), 10)
	}
	return strconv.FormatFloat(v, 'g', -1, bits)
}

func parseJSON(dec *json.Decoder) A {
	tok, err := dec.Token()
	if err != nil {
		panic("harness: protojson output is not JSON: " + err.Error())
	}
	switch t := tok.(type) {
	case nil:
		return node("null", []any{})
	case bool:
		if t {
			return node("bool", []any{1})
		}
		return node("bool", []any{0})
	case json.Number:
		f, err := strconv.ParseFloat(string(t), 64)
		if err != nil {
			return node("num", chars(string(t)))
		}
		return node("num", chars(canonNum(f, 64)))
	case string:
		return node("str", chars(t))
	case json.Delim:
		if t == '[' {
			xs := []any{}
			for dec.More() {
				xs = append(xs, parseJSON(dec))
			}
			dec.Token()
			return node("arr", xs)
		}
		type pair struct {
			k string
			v A
		}
		var ps []pair
		for dec.More() {
			kt, _ := dec.Token()
			k, _ := kt.(string)
			v := parseJSON(dec)
			if k == "@type" && core.Str(v["k"]) == "str" {
				v = node("url", urlAbstract(unchars(v["v"])))
			}
			ps = append(ps, pair{k, v})
		}
		dec.Token()
		sort.SliceStable(ps, func(i, j int) bool { return ps[i].k < ps[j].k })
		xs := []any{}
		for _, p := range ps {
			xs = append(xs, []any{chars(p.k), p.v})
		}
		return node("obj", xs)
	}
	panic(fmt.Sprintf("harness: unexpected JSON token %v", tok))
}

func parseJSONText(b []byte) A {
	dec := json.NewDecoder(bytes.NewReader(b))
	dec.UseNumber()
	return parseJSON(dec)
}

// ---- abstract message <-> proto

func numOf(n A) float64 {
	switch core.Str(n["c"]) {
	case "nan":
		return math.NaN()
	case "inf":
		return math.Inf(1)
	case "ninf":
		return math.Inf(-1)
	}
	f, err := strconv.ParseFloat(unchars(n["d"]), 64)
	if err != nil {
		panic("harness: bad number literal " + unchars(n["d"]))
	}
	return f
}

func numAbs(v float64, bits int) A {
	switch {
	case math.IsNaN(v):
		return A{"c": "nan", "d": []any{}}
	case math.IsInf(v, 1):
		return A{"c": "inf", "d": []any{}}
	case math.IsInf(v, -1):
		return A{"c": "ninf", "d": []any{}}
	}
	s := canonNum(v, bits)
	if v == math.Trunc(v) && math.Abs(v) <= 1<<53 && !(v == 0 && math.Signbit(v)) {
		return A{"c": "int", "d": chars(s)}
	}
	return A{"c": "lit", "d": chars(s)}
}

func buildValue(x A) *structpb.Value {
	p := x["p"]
	switch core.Str(x["k"]) {
	case "unset":
		return &structpb.Value{}
	case "null":
		return structpb.NewNullValue()
	case "bool":
		return structpb.NewBoolValue(core.Int(core.List(p)[0]) != 0)
	case "num":
		return structpb.NewNumberValue(numOf(core.Map(p)))
	case "str":
		return structpb.NewStringValue(unchars(p))
	case "struct":
		return structpb.NewStructValue(buildStruct(core.List(p)))
	case "list":
		return structpb.NewListValue(buildList(core.List(p)))
	}
	panic("harness: bad value kind")
}

func buildStruct(ps []any) *structpb.Struct {
	s := &structpb.Struct{Fields: map[string]*structpb.Value{}}
	for _, q := range ps {
		kv := core.List(q)
		s.Fields[unchars(kv[0])] = buildValue(core.Map(kv[1]))
	}
	return s
}

func buildList(xs []any) *structpb.ListValue {
	l := &structpb.ListValue{}
	for _, x := range xs {
		l.Values = append(l.Values, buildValue(core.Map(x)))
	}
	return l
}

func projValue(v *structpb.Value) A {
	switch k := v.GetKind().(type) {
	case nil:
		return A{"k": "unset", "p": []any{}}
	case *structpb.Value_NullValue:
		return A{"k": "null", "p": []any{}}
	case *structpb.Value_BoolValue:
		if k.BoolValue {
			return A{"k": "bool", "p": []any{1}}
		}
		return A{"k": "bool", "p": []any{0}}
	case *structpb.Value_NumberValue:
		return A{"k": "num", "p": numAbs(k.NumberValue, 64)}
	case *structpb.Value_StringValue:
		return A{"k": "str", "p": chars(k.StringValue)}
	case *structpb.Value_StructValue:
		return A{"k": "struct", "p": projStruct(k.StructValue)}
	case *structpb.Value_ListValue:
		return A{"k": "list", "p": projList(k.ListValue)}
	}
	panic("harness: unknown Value kind")
}

func projStruct(s *structpb.Struct) []any {
	keys := make([]string, 0, len(s.GetFields()))
	for k := range s.GetFields() {
		keys = append(keys, k)
	}
	sort.Strings(keys)
	ps := []any{}
	for _, k := range keys {
		ps = append(ps, []any{chars(k), projValue(s.Fields[k])})
	}
	return ps
}

func projList(l *structpb.ListValue) []any {
	xs := []any{}
	for _, v := range l.GetValues() {
		xs = append(xs, projValue(v))
	}
	return xs
}

func newOf(t string) proto.Message {
	switch t {
	case "BoolValue":
		return &wrapperspb.BoolValue{}
	case "Int32Value":
		return &wrapperspb.Int32Value{}
	case "Int64Value":
		return &wrapperspb.Int64Value{}
	case "UInt32Value":
		return &wrapperspb.UInt32Value{}
	case "UInt64Value":
		return &wrapperspb.UInt64Value{}
	case "FloatValue":
		return &wrapperspb.FloatValue{}
	case "DoubleValue":
		return &wrapperspb.DoubleValue{}
	case "StringValue":
		return &wrapperspb.StringValue{}
	case "BytesValue":
		return &wrapperspb.BytesValue{}
	case "Value":
		return &structpb.Value{}
	case "Struct":
		return &structpb.Struct{}
	case "ListValue":
		return &structpb.ListValue{}
	case "Empty":
		return &emptypb.Empty{}
	case "FieldMask":
		return &fieldmaskpb.FieldMask{}
	case "Duration":
		return &durationpb.Duration{}
	case "Timestamp":
		return &timestamppb.Timestamp{}
	case "Any":
		return &anypb.Any{}
	case "Foreign":
		return &test3pb.ForeignMessage{}
	}
	panic("harness: unknown abstract type " + t)
}

func build(m A) proto.Message {
	t, v := core.Str(m["t"]), m["v"]
	vs := core.List(v)
	switch t {
	case "BoolValue":
		return wrapperspb.Bool(core.Int(vs[0]) != 0)
	case "Int32Value":
		return wrapperspb.Int32(c2i32(v))
	case "Int64Value":
		return wrapperspb.Int64(c2i64(v))
	case "UInt32Value":
		x, _ := strconv.ParseUint(unchars(v), 10, 32)
		return wrapperspb.UInt32(uint32(x))
	case "UInt64Value":
		x, _ := strconv.ParseUint(unchars(v), 10, 64)
		return wrapperspb.UInt64(x)
	case "FloatValue":
		return wrapperspb.Float(float32(numOf(core.Map(v))))
	case "DoubleValue":
		return wrapperspb.Double(numOf(core.Map(v)))
	case "StringValue":
		return wrapperspb.String(unchars(v))
	case "BytesValue":
		return wrapperspb.Bytes(core.Bytes(v))
	case "Value":
		return buildValue(core.Map(v))
	case "Struct":
		return buildStruct(vs)
	case "ListValue":
		return buildList(vs)
	case "Empty":
		return &emptypb.Empty{}
	case "FieldMask":
		return &fieldmaskpb.FieldMask{Paths: pathsOf(v)}
	case "Duration":
		return &durationpb.Duration{Seconds: c2i64(vs[0]), Nanos: c2i32(vs[1])}
	case "Timestamp":
		return &timestamppb.Timestamp{Seconds: c2i64(vs[0]), Nanos: c2i32(vs[1])}
	case "Foreign":
		return &test3pb.ForeignMessage{C: c2i32(vs[0]), D: c2i32(vs[1])}
	case "Any":
		if len(vs) == 0 {
			return &anypb.Any{}
		}
		em := build(core.Map(vs[1]))
		b, err := proto.MarshalOptions{Deterministic: true}.Marshal(em)
		if err != nil {
			panic(err)
		}
		return &anypb.Any{TypeUrl: urlText(core.List(vs[0])), Value: b}
	}
	panic("harness: unknown abstract type " + t)
}

func project(t string, m proto.Message) A {
	var v any
	switch x := m.(type) {
	case *wrapperspb.BoolValue:
		v = []any{0}
		if x.Value {
			v = []any{1}
		}
	case *wrapperspb.Int32Value:
		v = i64c(int64(x.Value))
	case *wrapperspb.Int64Value:
		v = i64c(x.Value)
	case *wrapperspb.UInt32Value:
		v = chars(strconv.FormatUint(uint64(x.Value), 10))
	case *wrapperspb.UInt64Value:
		v = chars(strconv.FormatUint(x.Value, 10))
	case *wrapperspb.FloatValue:
		v = numAbs(float64(x.Value), 32)
	case *wrapperspb.DoubleValue:
		v = numAbs(x.Value, 64)
	case *wrapperspb.StringValue:
		v = chars(x.Value)
	case *wrapperspb.BytesValue:
		v = core.B(x.Value)
	case *structpb.Value:
		v = projValue(x)
	case *structpb.Struct:
		v = projStruct(x)
	case *structpb.ListValue:
		v = projList(x)
	case *emptypb.Empty:
		v = []any{}
	case *fieldmaskpb.FieldMask:
		v = pathsJSON(x.Paths)
	case *durationpb.Duration:
		v = []any{i64c(x.Seconds), i64c(int64(x.Nanos))}
	case *timestamppb.Timestamp:
		v = []any{i64c(x.Seconds), i64c(int64(x.Nanos))}
	case *test3pb.ForeignMessage:
		v = []any{i64c(int64(x.C)), i64c(int64(x.D))}
	case *anypb.Any:
		if x.GetTypeUrl() == "" && len(x.GetValue()) == 0 {
			v = []any{}
			break
		}
		u := urlAbstract(x.GetTypeUrl())
		et := core.Str(u[1])
		if _, ok := fullNames[et]; !ok || et == "NoSuch" {
			v = []any{u, A{"t": "Opaque", "v": core.B(x.GetValue())}}
			break
		}
		em := newOf(et)
		if err := proto.Unmarshal(x.GetValue(), em); err != nil {
			v = []any{u, A{"t": "Corrupt", "v": core.B(x.GetValue())}}
			break
		}
		v = []any{u, project(et, em)}
	default:
		panic(fmt.Sprintf("harness: cannot project %T", m))
	}
	return A{"t": t, "v": v}
}

func formsExec(op string, c core.Case) core.Case {
	out := core.Case{}
	switch op {
	case "tojson":
		am := core.Map(c["m"])
		m := build(am)
		b, err := protojson.Marshal(m)
		out["ok"] = err == nil
		if err == nil {
			out["j"] = parseJSONText(b)
			back := m.ProtoReflect().New().Interface()
			out["rt"] = protojson.Unmarshal(b, back) == nil && proto.Equal(back, m)
		}
	case "fromjson":
		t := core.Str(c["t"])
		var buf bytes.Buffer
		renderJSON(&buf, core.Map(c["j"]))
		m := newOf(t)
		err := protojson.Unmarshal(buf.Bytes(), m)
		out["ok"] = err == nil
		if err == nil {
			out["m"] = project(t, m)
		}
	default:
		return nil
	}
	return out
}

// ---- seeded random cases

var formKeys = []string{"a", "b", "ab", "", "k1", "@x", "Z"}
var formStrings = []string{"", "a", "NaN", "Infinity", "1.5s", "x y", "é", "\"q\"", "-1"}

func randNumAbs(r *rand.Rand, specials bool) A {
	switch r.IntN(6) {
	case 0:
		if specials {
			return numAbs([]float64{math.NaN(), math.Inf(1), math.Inf(-1)}[r.IntN(3)], 64)
		}
		return numAbs(0, 64)
	case 1:
		return numAbs(float64(int64(r.IntN(2000001))-1000000), 64)
	case 2:
		return numAbs([]float64{1 << 53, -(1 << 53), 1<<53 + 2, 1e21, 1e-7, -0.25, 1.5, math.Copysign(0, -1), math.MaxFloat64, math.SmallestNonzeroFloat64}[r.IntN(10)], 64)
	}
	return numAbs(math.Float64frombits(r.Uint64()&^(0x7ff<<52)|uint64(r.IntN(2046)+1)<<52), 64)
}

func randValueAbs(r *rand.Rand, depth int, forMarshal bool) A {
	k := r.IntN(9)
	if depth <= 0 && k >= 5 {
		k = r.IntN(5)
	}
	switch k {
	case 0:
		return A{"k": "null", "p": []any{}}
	case 1:
		return A{"k": "bool", "p": []any{r.IntN(2)}}
	case 2, 3:
		return A{"k": "num", "p": randNumAbs(r, forMarshal && r.IntN(4) == 0)}
	case 4:
		return A{"k": "str", "p": chars(formStrings[r.IntN(len(formStrings))])}
	case 5, 6:
		return A{"k": "struct", "p": randPairsAbs(r, depth-1, forMarshal)}
	case 7:
		xs := []any{}
		for n := r.IntN(4); n > 0; n-- {
			xs = append(xs, randValueAbs(r, depth-1, forMarshal))
		}
		return A{"k": "list", "p": xs}
	}
	if forMarshal && r.IntN(3) == 0 {
		return A{"k": "unset", "p": []any{}}
	}
	return A{"k": "null", "p": []any{}}
}

func randPairsAbs(r *rand.Rand, depth int, forMarshal bool) []any {
	seen := map[string]bool{}
	var keys []string
	for n := r.IntN(4); n > 0; n-- {
		k := formKeys[r.IntN(len(formKeys))]
		if !seen[k] {
			seen[k] = true
			keys = append(keys, k)
		}
	}
	sort.Strings(keys)
	ps := []any{}
	for _, k := range keys {
		ps = append(ps, []any{chars(k), randValueAbs(r, depth, forMarshal)})
	}
	return ps
}

var fmPaths = []string{"a", "foo_bar", "foo.bar_baz", "a_b.c_d_e", "foo__bar", "foo_1", "Foo", "foo_", "_foo", "a.b", "", "a..b", "f1.g2", "foo_Bar", "x-y"}

func randMsgAbs(r *rand.Rand, depth int) A {
	ts := []string{"BoolValue", "Int32Value", "Int64Value", "UInt32Value", "UInt64Value", "FloatValue", "DoubleValue", "StringValue",
		"BytesValue", "Value", "Value", "Struct", "ListValue", "Empty", "FieldMask", "Duration", "Timestamp", "Foreign", "Any", "Any"}
	t := ts[r.IntN(len(ts))]
	if depth <= 0 && t == "Any" {
		t = "Duration"
	}
	var v any
	switch t {
	case "BoolValue":
		v = []any{r.IntN(2)}
	case "Int32Value":
		v = i64c(randNear(r, []int64{0, math.MaxInt32, math.MinInt32}, math.MinInt32, math.MaxInt32))
	case "Int64Value":
		v = i64c(randNear(r, []int64{0, math.MaxInt64, math.MinInt64, 1 << 53}, math.MinInt64, math.MaxInt64))
	case "UInt32Value":
		v = i64c(randNear(r, []int64{0, math.MaxUint32}, 0, math.MaxUint32))
	case "UInt64Value":
		v = chars(strconv.FormatUint([]uint64{0, math.MaxUint64, 1 << 63, r.Uint64(), uint64(r.IntN(1000))}[r.IntN(5)], 10))
	case "FloatValue":
		v = numAbs(float64([]float32{0, 1, -1, 16777216, 0.5, -2.25, float32(math.Inf(1)), float32(math.Inf(-1)), float32(math.NaN()), float32(r.IntN(100000))}[r.IntN(10)]), 32)
	case "DoubleValue":
		v = randNumAbs(r, true)
	case "StringValue":
		v = chars(formStrings[r.IntN(len(formStrings))])
	case "BytesValue":
		v = core.B(randBytesW(r, 7))
	case "Value":
		v = randValueAbs(r, 2, true)
	case "Struct":
		v = randPairsAbs(r, 1, true)
	case "ListValue":
		xs := []any{}
		for n := r.IntN(4); n > 0; n-- {
			xs = append(xs, randValueAbs(r, 1, true))
		}
		v = xs
	case "Empty":
		v = []any{}
	case "FieldMask":
		ps := []string{}
		for n := r.IntN(4); n > 0; n-- {
			ps = append(ps, fmPaths[r.IntN(len(fmPaths))])
		}
		v = pathsJSON(ps)
	case "Duration":
		v = []any{i64c(randNear(r, []int64{0, 315576000000, -315576000000}, -315576000001, 315576000001)), i64c(randNanos(r))}
	case "Timestamp":
		v = []any{i64c(randNear(r, []int64{0, -62135596800, 253402300799}, -62135596801, 253402300800)), i64c(randNanos(r))}
	case "Foreign":
		v = []any{i64c(int64(r.IntN(5)) - 2), i64c(int64(r.IntN(3)))}
	case "Any":
		if r.IntN(8) == 0 {
			v = []any{}
			break
		}
		em := randMsgAbs(r, depth-1)
		cls := []string{"std", "std", "alt", "bare"}[r.IntN(4)]
		v = []any{[]any{cls, core.Str(em["t"])}, em}
	}
	return A{"t": t, "v": v}
}

func randBytesW(r *rand.Rand, max int) []byte {
	b := make([]byte, r.IntN(max+1))
	for i := range b {
		b[i] = byte(r.Uint32())
		if r.IntN(3) == 0 {
			b[i] = []byte{0, 0xff, 0xfb, 0x3f, 0x3e}[r.IntN(5)]
		}
	}
	return b
}

// randJSONAbs: an arbitrary abstract JSON document (numbers in canonical form).
func randJSONAbs(r *rand.Rand, depth int) A {
	k := r.IntN(8)
	if depth <= 0 && k >= 5 {
		k = r.IntN(5)
	}
	switch k {
	case 0:
		return node("null", []any{})
	case 1:
		return node("bool", []any{r.IntN(2)})
	case 2, 3:
		n := randNumAbs(r, false)
		return node("num", n["d"])
	case 4:
		return node("str", chars(formStrings[r.IntN(len(formStrings))]))
	case 5:
		xs := []any{}
		for n := r.IntN(4); n > 0; n-- {
			xs = append(xs, randJSONAbs(r, depth-1))
		}
		return node("arr", xs)
	}
	ps := []any{}
	for n := r.IntN(4); n > 0; n-- {
		ps = append(ps, []any{chars(formKeys[r.IntN(len(formKeys))]), randJSONAbs(r, depth-1)})
	}
	return node("obj", ps)
}

// bigIntText: an integer literal (possibly quoted) beyond what a double holds exactly, or the non-canonical spelling -0; such
// documents are only parsed as their own type (the specification covers canonical integer literals; other spellings are C22's).
var bigIntText = regexp.MustCompile(`^"?(-?[0-9]{16,}|-0)"?$`)

func formsGen(r *rand.Rand, emit func(core.Case)) {
	switch r.IntN(4) {
	case 0, 1:
		emit(core.Case{"op": "tojson", "m": randMsgAbs(r, 2)})
	case 2:
		// arbitrary JSON into Value / Struct / ListValue
		t := []string{"Value", "Value", "Struct", "ListValue"}[r.IntN(4)]
		emit(core.Case{"op": "fromjson", "t": t, "j": randJSONAbs(r, 3)})
	default:
		// the JSON form of a random message (as the harness renders the real output), possibly for another type
		m := randMsgAbs(r, 2)
		b, err := protojson.Marshal(build(m))
		if err != nil {
			emit(core.Case{"op": "tojson", "m": m})
			return
		}
		t := core.Str(m["t"])
		if r.IntN(5) == 0 && !bytes.Contains(b, []byte("@type")) && !bigIntText.Match(b) {
			// (not BytesValue / FloatValue: base64 input leniency and float32 range are outside this specification)
			t = []string{"BoolValue", "Int32Value", "Int64Value", "UInt32Value", "UInt64Value", "DoubleValue", "StringValue", "Value",
				"Struct", "ListValue", "Empty", "FieldMask", "Duration", "Timestamp", "Any"}[r.IntN(15)]
		}
		emit(core.Case{"op": "fromjson", "t": t, "j": parseJSONText(b)})
	}
}
