package wkt

import (
	"bytes"
	"math/rand/v2"
	"strconv"
	"sync"

	"google.golang.org/protobuf/encoding/protowire"
	"google.golang.org/protobuf/internal/verifh/core"
	"google.golang.org/protobuf/proto"
	"google.golang.org/protobuf/reflect/protoreflect"
	"google.golang.org/protobuf/reflect/protoregistry"
	"google.golang.org/protobuf/types/known/anypb"
)

// Op "anybox" of module "structval" (C45): one whole history of the AnyBox machine (spec/wkt/AnyBox.tla) on the real
// anypb API: one *anypb.Any and one destination message of the registered type number T.
//
//	{op: anybox, T, tn, steps: [{a, t, c, o: {merge, part}, u}]} -> {tn, obs: [{ok, url, name, empty, is, dst, nt, nm}]}
//
// Abstract message contents {s, r, q, u, x} are mapped onto the slots of the concrete type (boxType): s = the first
// singular numeric/string/bytes field that is neither required nor a oneof member, r = the first repeated field of
// such a kind, q = all required fields (recursively through required message fields), u = unknown-field records with a
// field number from the reserved range 19000..19999 (never a declared field or extension), x = populated fields outside
// the slots.

type boxType struct {
	mt   protoreflect.MessageType
	name string
	s, r protoreflect.FieldDescriptor
	req  []protoreflect.FieldDescriptor
}

func slotKind(k protoreflect.Kind) bool {
	switch k {
	case protoreflect.BoolKind, protoreflect.EnumKind, protoreflect.MessageKind, protoreflect.GroupKind:
		return false
	}
	return true
}

var boxTable = sync.OnceValue(func() []*boxType {
	var tab []*boxType
	for _, n := range anyTypes() {
		mt, err := protoregistry.GlobalTypes.FindMessageByName(protoreflect.FullName(n))
		if err != nil {
			panic("harness: registered type vanished: " + n)
		}
		bt := &boxType{mt: mt, name: n}
		fds := mt.Descriptor().Fields()
		for i := 0; i < fds.Len(); i++ {
			fd := fds.Get(i)
			switch {
			case fd.Cardinality() == protoreflect.Required:
				bt.req = append(bt.req, fd)
			case fd.IsWeak() || fd.IsMap():
			case fd.IsList():
				if bt.r == nil && slotKind(fd.Kind()) {
					bt.r = fd
				}
			case fd.ContainingOneof() != nil && !fd.ContainingOneof().IsSynthetic():
			default:
				if bt.s == nil && slotKind(fd.Kind()) {
					bt.s = fd
				}
			}
		}
		if len(bt.req) > 0 {
			m := mt.New()
			fillRequired(m, 0)
			if err := proto.CheckInitialized(m.Interface()); err != nil {
				panic("harness: cannot initialise the required fields of " + n + ": " + err.Error())
			}
		}
		tab = append(tab, bt)
	}
	return tab
})

var boxByName = sync.OnceValue(func() map[string]*boxType {
	m := map[string]*boxType{}
	for _, bt := range boxTable() {
		m[bt.name] = bt
	}
	return m
})

func slotValue(fd protoreflect.FieldDescriptor, v int) protoreflect.Value {
	switch fd.Kind() {
	case protoreflect.BoolKind:
		return protoreflect.ValueOfBool(true)
	case protoreflect.EnumKind:
		return protoreflect.ValueOfEnum(fd.Enum().Values().Get(0).Number())
	case protoreflect.Int32Kind, protoreflect.Sint32Kind, protoreflect.Sfixed32Kind:
		return protoreflect.ValueOfInt32(int32(v))
	case protoreflect.Int64Kind, protoreflect.Sint64Kind, protoreflect.Sfixed64Kind:
		return protoreflect.ValueOfInt64(int64(v))
	case protoreflect.Uint32Kind, protoreflect.Fixed32Kind:
		return protoreflect.ValueOfUint32(uint32(v))
	case protoreflect.Uint64Kind, protoreflect.Fixed64Kind:
		return protoreflect.ValueOfUint64(uint64(v))
	case protoreflect.FloatKind:
		return protoreflect.ValueOfFloat32(float32(v))
	case protoreflect.DoubleKind:
		return protoreflect.ValueOfFloat64(float64(v))
	case protoreflect.StringKind:
		return protoreflect.ValueOfString("s" + strconv.Itoa(v))
	case protoreflect.BytesKind:
		return protoreflect.ValueOfBytes([]byte{byte(v)})
	}
	panic("harness: no slot value for kind " + fd.Kind().String())
}

// slotIndex is the inverse of slotValue on {1, 2}; any other value is reported as 9.
func slotIndex(fd protoreflect.FieldDescriptor, val protoreflect.Value) int {
	for v := 1; v <= 2; v++ {
		w := slotValue(fd, v)
		if fd.Kind() == protoreflect.BytesKind {
			if bytes.Equal(w.Bytes(), val.Bytes()) {
				return v
			}
		} else if w.Interface() == val.Interface() {
			return v
		}
	}
	return 9
}

func fillRequired(m protoreflect.Message, depth int) {
	if depth > 8 {
		return
	}
	fds := m.Descriptor().Fields()
	for i := 0; i < fds.Len(); i++ {
		fd := fds.Get(i)
		if fd.Cardinality() != protoreflect.Required {
			continue
		}
		if fd.Message() != nil {
			fillRequired(m.Mutable(fd).Message(), depth+1)
		} else {
			m.Set(fd, slotValue(fd, 1))
		}
	}
}

var boxUnknownRec = protowire.AppendVarint(protowire.AppendTag(nil, 19555, protowire.VarintType), 1)

func (bt *boxType) materialize(c A) proto.Message {
	m := bt.mt.New()
	if s := core.Int(c["s"]); s != 0 {
		if bt.s == nil {
			panic("harness: type " + bt.name + " has no singular slot")
		}
		m.Set(bt.s, slotValue(bt.s, s))
	}
	if rs := core.List(c["r"]); len(rs) > 0 {
		if bt.r == nil {
			panic("harness: type " + bt.name + " has no repeated slot")
		}
		l := m.Mutable(bt.r).List()
		for _, v := range rs {
			l.Append(slotValue(bt.r, core.Int(v)))
		}
	}
	if core.Int(c["q"]) != 0 {
		if len(bt.req) == 0 {
			panic("harness: type " + bt.name + " has no required fields")
		}
		fillRequired(m, 0)
	}
	if u := core.Int(c["u"]); u > 0 {
		m.SetUnknown(bytes.Repeat(boxUnknownRec, u))
	}
	return m.Interface()
}

func (bt *boxType) project(pm proto.Message) A {
	m := pm.ProtoReflect()
	if m.Descriptor().FullName() != bt.mt.Descriptor().FullName() {
		panic("harness: projecting a " + string(m.Descriptor().FullName()) + " as " + bt.name)
	}
	c := A{"s": 0, "r": []any{}, "q": 0, "u": 0, "x": 0}
	if bt.s != nil && m.Has(bt.s) {
		c["s"] = slotIndex(bt.s, m.Get(bt.s))
	}
	if bt.r != nil {
		l := m.Get(bt.r).List()
		rs := []any{}
		for i := 0; i < l.Len(); i++ {
			rs = append(rs, slotIndex(bt.r, l.Get(i)))
		}
		c["r"] = rs
	}
	if len(bt.req) > 0 {
		n := 0
		for _, fd := range bt.req {
			if m.Has(fd) {
				n++
			}
		}
		switch {
		case n == 0:
		case n == len(bt.req) && proto.CheckInitialized(pm) == nil:
			c["q"] = 1
		default:
			c["q"] = 2
		}
	}
	if u := m.GetUnknown(); len(u) > 0 {
		k := len(u) / len(boxUnknownRec)
		if bytes.Equal(u, bytes.Repeat(boxUnknownRec, k)) {
			c["u"] = k
		} else {
			c["u"] = 99
		}
	}
	x := 0
	m.Range(func(fd protoreflect.FieldDescriptor, _ protoreflect.Value) bool {
		slot := fd.Cardinality() == protoreflect.Required && !fd.IsExtension()
		if !fd.IsExtension() && (bt.s != nil && fd.Number() == bt.s.Number() || bt.r != nil && fd.Number() == bt.r.Number()) {
			slot = true
		}
		if !slot {
			x++
		}
		return true
	})
	c["x"] = x
	return c
}

func boxFacts() []any {
	fs := []any{}
	for _, bt := range boxTable() {
		fs = append(fs, A{"s": bt.s != nil, "r": bt.r != nil, "q": len(bt.req) > 0})
	}
	return fs
}

func boxExec(c core.Case) core.Case {
	tab := boxTable()
	ti := core.Int(c["T"])
	if ti < 1 || ti > len(tab) {
		panic("harness: anybox type index out of range")
	}
	T := tab[ti-1]
	if tn := unchars(c["tn"]); tn != T.name {
		panic("harness: anybox type table mismatch: case says " + tn + ", table says " + T.name)
	}
	a := &anypb.Any{}
	dst := T.mt.New().Interface()
	obs := []any{}
	for _, sv := range core.List(c["steps"]) {
		p := core.Map(sv)
		o := core.Map(p["o"])
		merge, part := core.Bool(o["merge"]), core.Bool(o["part"])
		ok := true
		nt, nm := []any{}, A{"s": 0, "r": []any{}, "q": 0, "u": 0, "x": 0}
		switch act := core.Str(p["a"]); act {
		case "fill":
			dst = T.materialize(core.Map(p["c"]))
		case "new":
			si := core.Int(p["t"])
			if si < 1 || si > len(tab) {
				panic("harness: anybox source type index out of range")
			}
			src := tab[si-1].materialize(core.Map(p["c"]))
			if part {
				ok = anypb.MarshalFrom(a, src, proto.MarshalOptions{AllowPartial: true}) == nil
			} else if na, err := anypb.New(src); err == nil {
				a = na
			} else {
				ok = false
			}
		case "url":
			a.TypeUrl = unchars(p["u"])
		case "to":
			if !merge && !part {
				ok = a.UnmarshalTo(dst) == nil
			} else {
				ok = anypb.UnmarshalTo(a, dst, proto.UnmarshalOptions{Merge: merge, AllowPartial: part}) == nil
			}
		case "unew":
			var m proto.Message
			var err error
			if !merge && !part {
				m, err = a.UnmarshalNew()
			} else {
				m, err = anypb.UnmarshalNew(a, proto.UnmarshalOptions{Merge: merge, AllowPartial: part})
			}
			ok = err == nil
			if m != nil {
				name := string(m.ProtoReflect().Descriptor().FullName())
				nt = chars(name)
				if bt := boxByName()[name]; bt != nil {
					nm = bt.project(m)
				} else {
					nm["x"] = 77 // a type outside the table: never expected
				}
			}
		default:
			panic("harness: unknown anybox step " + act)
		}
		obs = append(obs, A{"ok": ok, "url": chars(a.GetTypeUrl()), "name": chars(string(a.MessageName())), "empty": len(a.GetValue()) == 0,
			"is": a.MessageIs(dst), "dst": T.project(dst), "nt": nt, "nm": nm})
	}
	return core.Case{"tn": chars(T.name), "obs": obs}
}

// ---- seeded random histories

func boxContent(r *rand.Rand, bt *boxType, emptyBias int) A {
	c := A{"s": 0, "r": []any{}, "q": 0, "u": 0, "x": 0}
	if r.IntN(10) < emptyBias {
		return c
	}
	if bt.s != nil && r.IntN(3) > 0 {
		c["s"] = 1 + r.IntN(2)
	}
	if bt.r != nil && r.IntN(2) == 0 {
		rs := []any{}
		for n := 1 + r.IntN(3); n > 0; n-- {
			rs = append(rs, 1+r.IntN(2))
		}
		c["r"] = rs
	}
	if len(bt.req) > 0 && r.IntN(3) > 0 {
		c["q"] = 1
	}
	if r.IntN(3) == 0 {
		c["u"] = 1 + r.IntN(2)
	}
	return c
}

func boxIsEmpty(c A) bool {
	return core.Int(c["s"]) == 0 && len(core.List(c["r"])) == 0 && core.Int(c["q"]) == 0 && core.Int(c["u"]) == 0
}

var boxPartners = sync.OnceValue(func() map[int][]int {
	tab := boxTable()
	ps := map[int][]int{}
	for i, a := range tab {
		for j, b := range tab {
			if i != j && len(b.name) > len(a.name) && b.name[len(b.name)-len(a.name):] == a.name {
				ps[i] = append(ps[i], j)
				ps[j] = append(ps[j], i)
			}
		}
	}
	return ps
})

// boxGen produces one random history.  To keep every parse well defined (AnyBox.BoxDefined) it tracks three facts about
// the Any it has built so far: which type was packed last, whether the payload is empty, and which registered type (if
// any) the URL names; the URL is pointed at a type other than the packed one only while the payload is empty.
func boxGen(r *rand.Rand) core.Case {
	tab := boxTable()
	partners := boxPartners()
	ti := r.IntN(len(tab))
	if r.IntN(4) == 0 { // a member of a suffix-name pair
		var keys []int
		for k := range tab {
			if len(partners[k]) > 0 {
				keys = append(keys, k)
			}
		}
		if len(keys) > 0 {
			ti = keys[r.IntN(len(keys))]
		}
	}
	T := tab[ti]
	empty := func() A { return A{"s": 0, "r": []any{}, "q": 0, "u": 0, "x": 0} }
	step := func(a string, t int, c A, merge, part bool, u string) A {
		if c == nil {
			c = empty()
		}
		return A{"a": a, "t": t, "c": c, "o": A{"merge": merge, "part": part}, "u": chars(u)}
	}
	var steps []any
	packed, payloadEmpty := -1, true
	pack := func(si int, c A, part bool) {
		steps = append(steps, step("new", si+1, c, false, part, ""))
		if part || len(tab[si].req) == 0 || core.Int(c["q"]) == 1 { // otherwise anypb.New must fail and the Any stays
			packed, payloadEmpty = si, boxIsEmpty(c)
		}
	}
	if r.IntN(3) == 0 {
		// the reuse shape: a populated destination, then an empty (or nearly empty) message of the same type
		d := boxContent(r, T, 0)
		if boxIsEmpty(d) {
			d["u"] = 1
		}
		steps = append(steps, step("fill", 0, d, false, false, ""))
		pack(ti, boxContent(r, T, 8), r.IntN(4) > 0)
		steps = append(steps, step("to", 0, nil, r.IntN(4) == 0, r.IntN(2) == 0, ""))
	} else if r.IntN(4) > 0 {
		steps = append(steps, step("fill", 0, boxContent(r, T, 2), false, false, ""))
	}
	for n := 1 + r.IntN(7); n > 0; n-- {
		switch k := r.IntN(10); {
		case k < 3:
			si := ti
			if x := r.IntN(10); x == 0 {
				si = r.IntN(len(tab))
			} else if x <= 2 && len(partners[ti]) > 0 {
				si = partners[ti][r.IntN(len(partners[ti]))]
			}
			pack(si, boxContent(r, tab[si], 5), r.IntN(3) > 0)
		case k == 3:
			o := packed
			if payloadEmpty && (packed < 0 || r.IntN(3) == 0) { // only an empty payload parses as any type
				o = r.IntN(len(tab))
				if packed >= 0 && len(partners[packed]) > 0 && r.IntN(2) == 0 {
					o = partners[packed][r.IntN(len(partners[packed]))]
				}
				if r.IntN(2) == 0 {
					o = ti
				}
			}
			if o < 0 {
				continue
			}
			pre := []string{"", "/", "a.b/c/", "type.googleapis.com/", "type.googleapis.com/x", "type.googleapis.com/x.", "http://h:80/p/"}[r.IntN(7)]
			suf := ""
			if r.IntN(6) == 0 {
				suf = []string{"/", ".", "!"}[r.IntN(3)]
			}
			u := pre + tab[o].name + suf
			if r.IntN(8) == 0 {
				u = ""
			}
			steps = append(steps, step("url", 0, nil, false, false, u))
		case k == 4:
			steps = append(steps, step("fill", 0, boxContent(r, T, 2), false, false, ""))
		case k <= 7:
			steps = append(steps, step("to", 0, nil, r.IntN(3) == 0, r.IntN(3) == 0, ""))
		default:
			steps = append(steps, step("unew", 0, nil, r.IntN(4) == 0, r.IntN(3) == 0, ""))
		}
	}
	return core.Case{"op": "anybox", "T": ti + 1, "tn": chars(T.name), "steps": steps}
}
