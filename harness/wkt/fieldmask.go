package wkt

import (
	"math/rand/v2"
	"strings"

	"google.golang.org/protobuf/internal/verifh/core"
	"google.golang.org/protobuf/proto"
	"google.golang.org/protobuf/reflect/protoreflect"
	"google.golang.org/protobuf/reflect/protoregistry"
	"google.golang.org/protobuf/types/known/fieldmaskpb"

	_ "google.golang.org/protobuf/internal/testprotos/test"
	_ "google.golang.org/protobuf/internal/testprotos/test3"
	_ "google.golang.org/protobuf/internal/testprotos/testeditions"
)

// Module "fieldmask" (C44).
//
//	{op: norm,      paths}      -> {norm: Normalize result, idem: result of a second Normalize}
//	{op: union,     m: [masks]} -> {r}
//	{op: intersect, m: [masks]} -> {r}
//	{op: valid, msg, paths}     -> {n: paths appended by New, app, err: New failed, agree: Append behaves like New, isvalid}
//	{op: schema, roots}         -> {msgs: descriptor facts of the roots and everything reachable through message fields}
//
// Paths travel as arrays of character codes.
func init() {
	core.Register(&core.Module{Name: "fieldmask", Exec: fieldmaskExec, Gen: fieldmaskGen})
}

func pathsOf(v any) []string {
	var r []string
	for _, p := range core.List(v) {
		r = append(r, unchars(p))
	}
	return r
}

func pathsJSON(ps []string) []any {
	r := make([]any, 0, len(ps))
	for _, p := range ps {
		r = append(r, chars(p))
	}
	return r
}

func masksOf(v any) []*fieldmaskpb.FieldMask {
	var r []*fieldmaskpb.FieldMask
	for _, m := range core.List(v) {
		r = append(r, &fieldmaskpb.FieldMask{Paths: pathsOf(m)})
	}
	return r
}

// FieldMaskRoots are the corpus message types whose schema is exported to the specification.
var FieldMaskRoots = []string{
	"goproto.proto.test.TestAllTypes",
	"goproto.proto.test3.TestAllTypes",
	"goproto.proto.testeditions.TestAllTypes",
	"goproto.proto.test.TestRequired",
	"google.protobuf.FieldMask",
}

func findMsg(full string) proto.Message {
	mt, err := protoregistry.GlobalTypes.FindMessageByName(protoreflect.FullName(full))
	if err != nil {
		panic("harness: unknown message " + full)
	}
	return mt.New().Interface()
}

func fieldmaskExec(c core.Case) core.Case {
	out := core.Case{}
	switch op := core.Str(c["op"]); op {
	case "norm":
		m := &fieldmaskpb.FieldMask{Paths: pathsOf(c["paths"])}
		m.Normalize()
		out["norm"] = pathsJSON(m.Paths)
		m2 := &fieldmaskpb.FieldMask{Paths: append([]string(nil), m.Paths...)}
		m2.Normalize()
		out["idem"] = pathsJSON(m2.Paths)
	case "union", "intersect":
		ms := masksOf(c["m"])
		var r *fieldmaskpb.FieldMask
		if op == "union" {
			r = fieldmaskpb.Union(ms[0], ms[1], ms[2:]...)
		} else {
			r = fieldmaskpb.Intersect(ms[0], ms[1], ms[2:]...)
		}
		out["r"] = pathsJSON(r.GetPaths())
	case "valid":
		msg := findMsg(core.Str(c["msg"]))
		// the path list travels as one string in which every path is followed by ','
		paths := strings.Split(unchars(c["paths"]), ",")
		paths = paths[:len(paths)-1]
		m, err := fieldmaskpb.New(msg, paths...)
		out["n"] = len(m.GetPaths())
		out["app"] = pathsJSON(m.GetPaths())
		m2 := &fieldmaskpb.FieldMask{}
		err2 := m2.Append(msg, paths...)
		out["err"] = err != nil
		out["agree"] = (err != nil) == (err2 != nil) && strings.Join(m.GetPaths(), "\x00") == strings.Join(m2.GetPaths(), "\x00")
		out["isvalid"] = (&fieldmaskpb.FieldMask{Paths: paths}).IsValid(msg)
	case "schema":
		out["msgs"] = exportSchema(c["roots"])
	default:
		panic("harness: unknown fieldmask op " + op)
	}
	return out
}

// exportSchema projects the real descriptors to the facts FieldMaskAlg!ValidPath consumes.
func exportSchema(roots any) []any {
	seen := map[protoreflect.FullName]bool{}
	var order []protoreflect.MessageDescriptor
	var visit func(md protoreflect.MessageDescriptor)
	visit = func(md protoreflect.MessageDescriptor) {
		if seen[md.FullName()] {
			return
		}
		seen[md.FullName()] = true
		order = append(order, md)
		for i := 0; i < md.Fields().Len(); i++ {
			fd := md.Fields().Get(i)
			if fd.Message() != nil && !fd.IsMap() {
				visit(fd.Message())
			}
		}
	}
	for _, r := range core.List(roots) {
		visit(findMsg(core.Str(r)).ProtoReflect().Descriptor())
	}
	var msgs []any
	for _, md := range order {
		var fs []any
		for i := 0; i < md.Fields().Len(); i++ {
			fd := md.Fields().Get(i)
			f := core.Case{"name": chars(string(fd.Name())), "mname": chars(""), "mfull": "", "group": fd.Kind() == protoreflect.GroupKind,
				"rep": fd.Cardinality() == protoreflect.Repeated}
			if sub := fd.Message(); sub != nil {
				f["mname"], f["mfull"] = chars(string(sub.Name())), string(sub.FullName())
			}
			fs = append(fs, f)
		}
		if fs == nil {
			fs = []any{}
		}
		msgs = append(msgs, core.Case{"full": string(md.FullName()), "fields": fs})
	}
	return msgs
}

// ---- seeded random cases

var fmAlphabet = []string{"a", "b", "ab", "a-", "a_b", "c", "B"}

func randAbstractPath(r *rand.Rand) string {
	n := 1 + r.IntN(3)
	segs := make([]string, n)
	for i := range segs {
		segs[i] = fmAlphabet[r.IntN(len(fmAlphabet))]
		if r.IntN(40) == 0 {
			segs[i] = ""
		}
	}
	return strings.Join(segs, ".")
}

// randCorpusPath walks the real descriptors: mostly valid chains, then optionally damaged.
func randCorpusPath(r *rand.Rand, md protoreflect.MessageDescriptor) string {
	var segs []string
	for depth := 0; depth < 4 && md != nil; depth++ {
		fds := md.Fields()
		if fds.Len() == 0 {
			break
		}
		var fd protoreflect.FieldDescriptor
		// prefer message fields half of the time so that deep chains occur
		wantGroup := r.IntN(5) == 0 // groups and delimited fields are rare among ~100 fields: look for one now and then
		for try := 0; try < 8; try++ {
			fd = fds.Get(r.IntN(fds.Len()))
			if wantGroup {
				if fd.Kind() == protoreflect.GroupKind {
					break
				}
				try--
				if wantGroup = r.IntN(64) != 0; wantGroup {
					continue
				}
			}
			if fd.Message() != nil || r.IntN(2) == 0 {
				break
			}
		}
		name := string(fd.Name())
		if fd.Kind() == protoreflect.GroupKind && r.IntN(3) != 0 {
			name = string(fd.Message().Name())
		}
		segs = append(segs, name)
		md = fd.Message()
		if r.IntN(3) == 0 {
			break
		}
	}
	p := strings.Join(segs, ".")
	switch r.IntN(12) {
	case 0:
		p += "."
	case 1:
		p = strings.Replace(p, ".", "..", 1)
	case 2:
		p = strings.ToUpper(p[:1]) + p[1:]
	case 3:
		p += ".nosuch"
	case 4:
		p = strings.ToLower(p)
	case 5:
		if i := strings.LastIndexByte(p, '.'); i > 0 {
			p = p[:i]
		}
	case 6:
		if len(p) > 1 {
			i := r.IntN(len(p))
			p = p[:i] + p[i+1:]
		}
	}
	return p
}

func fieldmaskGen(r *rand.Rand, n int, emit func(core.Case)) {
	mds := make([]protoreflect.MessageDescriptor, len(FieldMaskRoots))
	for i, f := range FieldMaskRoots {
		mds[i] = findMsg(f).ProtoReflect().Descriptor()
	}
	randMask := func(max int, corpus protoreflect.MessageDescriptor) []string {
		k := r.IntN(max + 1)
		ps := make([]string, 0, k)
		for i := 0; i < k; i++ {
			var p string
			if corpus != nil {
				p = randCorpusPath(r, corpus)
			} else {
				p = randAbstractPath(r)
			}
			ps = append(ps, p)
			// relatives of an earlier path: extension, parent, string-prefix sibling
			if len(ps) > 1 && r.IntN(3) == 0 {
				q := ps[r.IntN(len(ps)-1)]
				switch r.IntN(4) {
				case 0:
					ps[len(ps)-1] = q + "." + fmAlphabet[r.IntN(len(fmAlphabet))]
				case 1:
					if i := strings.LastIndexByte(q, '.'); i > 0 {
						ps[len(ps)-1] = q[:i]
					}
				case 2:
					ps[len(ps)-1] = q + "-"
				case 3:
					ps[len(ps)-1] = q
				}
			}
		}
		return ps
	}
	for i := 0; i < n; i++ {
		var corpus protoreflect.MessageDescriptor
		root := r.IntN(len(mds))
		if r.IntN(2) == 0 {
			corpus = mds[root]
		}
		switch r.IntN(8) {
		case 0, 1:
			emit(core.Case{"op": "norm", "paths": pathsJSON(randMask(7, corpus))})
		case 2, 3, 4:
			k := 2 + r.IntN(2)
			ms := make([]any, k)
			for j := range ms {
				ms[j] = pathsJSON(randMask(5, corpus))
			}
			op := "union"
			if r.IntN(3) != 0 {
				op = "intersect"
			}
			emit(core.Case{"op": op, "m": ms})
		default:
			ps := randMask(4, mds[root])
			if len(ps) == 0 {
				ps = []string{randCorpusPath(r, mds[root])}
			}
			emit(core.Case{"op": "valid", "msg": FieldMaskRoots[root], "paths": chars(strings.Join(ps, ",") + ",")})
		}
	}
}
