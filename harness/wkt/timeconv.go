// Package wkt is the conformance harness of the well-known-type family (C23, C43, C44, C45).
package wkt

import (
	"math"
	"math/rand/v2"
	"strconv"
	"time"

	"google.golang.org/protobuf/internal/verifh/core"
	"google.golang.org/protobuf/types/known/durationpb"
	"google.golang.org/protobuf/types/known/timestamppb"
)

// Module "timeconv" (C43): the Go helper methods of Duration and Timestamp.
//
//	{op: dur,    s, n}        -> {d: AsDuration, valid: IsValid, cv: CheckValid() == nil}
//	{op: durnew, d}           -> {s, n: New(d) fields, back: New(d).AsDuration(), valid}
//	{op: ts,     s, n}        -> {valid, cv, u, ns: AsTime().Unix()/Nanosecond(), utc, back: New(AsTime()).Seconds}
//	{op: tsnew,  u, ns, loc}  -> {s, n: New(t) fields, eq: New(t).AsTime().Equal(t), valid}
//
// All integers travel as the character codes of their decimal literal (64-bit safe).
func init() {
	core.Register(&core.Module{Name: "timeconv", Exec: timeconvExec, Gen: timeconvGen})
}

// chars / unchars: decimal literal <-> array of character codes.
func chars(s string) []any { return core.B([]byte(s)) }

func unchars(v any) string { return string(core.Bytes(v)) }

func i64c(x int64) []any { return chars(strconv.FormatInt(x, 10)) }

func c2i64(v any) int64 {
	x, err := strconv.ParseInt(unchars(v), 10, 64)
	if err != nil {
		panic("harness: bad int64 literal " + unchars(v))
	}
	return x
}

func c2i32(v any) int32 {
	x, err := strconv.ParseInt(unchars(v), 10, 32)
	if err != nil {
		panic("harness: bad int32 literal " + unchars(v))
	}
	return int32(x)
}

var tcLocs = []*time.Location{time.UTC, time.FixedZone("x", 5*3600+1800), time.FixedZone("y", -11*3600-59)}

func timeconvExec(c core.Case) core.Case {
	out := core.Case{}
	switch op := core.Str(c["op"]); op {
	case "dur":
		x := &durationpb.Duration{Seconds: c2i64(c["s"]), Nanos: c2i32(c["n"])}
		out["d"] = i64c(int64(x.AsDuration()))
		out["valid"] = x.IsValid()
		out["cv"] = x.CheckValid() == nil
	case "durnew":
		d := time.Duration(c2i64(c["d"]))
		x := durationpb.New(d)
		out["s"], out["n"] = i64c(x.Seconds), i64c(int64(x.Nanos))
		out["back"] = i64c(int64(x.AsDuration()))
		out["valid"] = x.IsValid() && x.CheckValid() == nil
	case "ts":
		x := &timestamppb.Timestamp{Seconds: c2i64(c["s"]), Nanos: c2i32(c["n"])}
		out["valid"] = x.IsValid()
		out["cv"] = x.CheckValid() == nil
		t := x.AsTime()
		out["u"], out["ns"] = i64c(t.Unix()), i64c(int64(t.Nanosecond()))
		out["utc"] = t.Location() == time.UTC
		out["back"] = i64c(timestamppb.New(t).Seconds)
	case "tsnew":
		t := time.Unix(c2i64(c["u"]), int64(c2i32(c["ns"]))).In(tcLocs[core.Int(c["loc"])%len(tcLocs)])
		x := timestamppb.New(t)
		out["s"], out["n"] = i64c(x.Seconds), i64c(int64(x.Nanos))
		out["eq"] = x.AsTime().Equal(t)
		out["valid"] = x.IsValid()
	default:
		panic("harness: unknown timeconv op " + op)
	}
	return out
}

// randI64 is uniform over bit lengths and signs, with a bias towards the listed corners +-3.
func randNear(r *rand.Rand, corners []int64, lo, hi int64) int64 {
	switch r.IntN(3) {
	case 0:
		c := corners[r.IntN(len(corners))]
		d := int64(r.IntN(7)) - 3
		if r.IntN(4) == 0 {
			d = int64(r.IntN(2000001)) - 1000000
		}
		if (d > 0 && c > hi-d) || (d < 0 && c < lo-d) {
			return c
		}
		return c + d
	case 1:
		n := r.IntN(64)
		v := int64(r.Uint64() >> uint(63-n) >> 1)
		if r.IntN(2) == 0 {
			v = -v
		}
		if v < lo || v > hi {
			v %= hi/2 + 1
		}
		if v < lo || v > hi {
			return lo
		}
		return v
	}
	v := int64(r.Uint64())
	if v < lo || v > hi {
		return lo + int64(r.Uint64()%uint64(hi-lo))
	}
	return v
}

var secCorners = []int64{0, 9223372036, -9223372036, 9223372037, -9223372037, 9223372039, -9223372039, 315576000000, -315576000000,
	-62135596800, 253402300799, math.MaxInt64, math.MinInt64, 1 << 31, -(1 << 31), 1 << 32}
var nanoCorners = []int64{0, 999999999, -999999999, 1000000000, -1000000000, 145224193, -145224193, 854775807, -854775807, math.MaxInt32, math.MinInt32}
var durCorners = []int64{0, 999999999, -999999999, 1000000000, -1000000000, math.MaxInt64, math.MinInt64, 9223372036000000000, -9223372036000000000}

func timeconvGen(r *rand.Rand, n int, emit func(core.Case)) {
	for i := 0; i < n; i++ {
		s := randNear(r, secCorners, math.MinInt64, math.MaxInt64)
		ns := randNear(r, nanoCorners, math.MinInt32, math.MaxInt32)
		switch r.IntN(8) {
		case 0, 1, 2:
			emit(core.Case{"op": "dur", "s": i64c(s), "n": i64c(ns)})
		case 3, 4:
			emit(core.Case{"op": "ts", "s": i64c(s), "n": i64c(ns)})
		case 5, 6:
			emit(core.Case{"op": "durnew", "d": i64c(randNear(r, durCorners, math.MinInt64, math.MaxInt64))})
		default:
			emit(core.Case{"op": "tsnew", "u": i64c(s), "ns": i64c(int64(r.IntN(1000000000))), "loc": r.IntN(3)})
		}
	}
}
