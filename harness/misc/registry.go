package misc

import (
	"fmt"
	"math/rand/v2"
	"sort"
	"strings"

	"google.golang.org/protobuf/internal/verifh/core"
	"google.golang.org/protobuf/proto"
	"google.golang.org/protobuf/reflect/protodesc"
	"google.golang.org/protobuf/reflect/protoreflect"
	"google.golang.org/protobuf/reflect/protoregistry"
	"google.golang.org/protobuf/types/descriptorpb"
	"google.golang.org/protobuf/types/dynamicpb"
	_ "google.golang.org/protobuf/types/known/emptypb"
)

// Module "registry" (C33, spec/misc/RegistryTable.tla): one case is a whole history on a fresh local
// protoregistry.Files and a fresh local protoregistry.Types.
//
//	{files: [{path, pkg: [seg], decls: [{k, n, p, num, x: [seg], o}]}], steps: [{op, f, d, name: [seg], pre: [str], s, num}]}
//	-> out {obs: [{r, ids: [[f, d]], n}]}
func init() {
	core.Register(&core.Module{Name: "registry", Exec: regExec, Gen: regGen})
}

type regDecl struct {
	K, N string
	P    int
	Num  int
	X    []string
	O    int
}
type regFile struct {
	Path  string
	Pkg   []string
	Decls []regDecl
}

func regStrs(v any) []string {
	var s []string
	for _, x := range core.List(v) {
		s = append(s, core.Str(x))
	}
	return s
}

func regFilesOf(v any) []regFile {
	var fs []regFile
	for _, x := range core.List(v) {
		m := core.Map(x)
		f := regFile{Path: core.Str(m["path"]), Pkg: regStrs(m["pkg"])}
		for _, y := range core.List(m["decls"]) {
			d := core.Map(y)
			f.Decls = append(f.Decls, regDecl{K: core.Str(d["k"]), N: core.Str(d["n"]), P: core.Int(d["p"]), Num: core.Int(d["num"]),
				X: regStrs(d["x"]), O: core.Int(d["o"])})
		}
		fs = append(fs, f)
	}
	return fs
}

func regAnyStrs(s []string) []any {
	r := make([]any, len(s))
	for i, x := range s {
		r[i] = x
	}
	return r
}

func (f regFile) toCase() core.Case {
	ds := make([]any, len(f.Decls))
	for i, d := range f.Decls {
		ds[i] = core.Case{"k": d.K, "n": d.N, "p": d.P, "num": d.Num, "x": regAnyStrs(d.X), "o": d.O}
	}
	return core.Case{"path": f.Path, "pkg": regAnyStrs(f.Pkg), "decls": ds}
}

// regBuild renders an abstract file to a real file descriptor (protodesc.NewFile) and returns, for every
// declaration index (1-based; 0 = the file), the real descriptor.
func regBuild(f regFile) []protoreflect.Descriptor {
	fdp := &descriptorpb.FileDescriptorProto{Name: proto.String(f.Path), Syntax: proto.String("proto2")}
	if len(f.Pkg) > 0 {
		fdp.Package = proto.String(strings.Join(f.Pkg, "."))
	}
	msgs := map[int]*descriptorpb.DescriptorProto{}
	enums := map[int]*descriptorpb.EnumDescriptorProto{}
	svcs := map[int]*descriptorpb.ServiceDescriptorProto{}
	oneofIdx := map[int]int32{} // oneof decl index -> index within its message
	for i, d := range f.Decls {
		i++
		switch d.K {
		case "msg":
			m := &descriptorpb.DescriptorProto{Name: proto.String(d.N),
				ExtensionRange: []*descriptorpb.DescriptorProto_ExtensionRange{{Start: proto.Int32(100), End: proto.Int32(10000)}}}
			msgs[i] = m
			if d.P == 0 {
				fdp.MessageType = append(fdp.MessageType, m)
			} else {
				msgs[d.P].NestedType = append(msgs[d.P].NestedType, m)
			}
		case "enum":
			e := &descriptorpb.EnumDescriptorProto{Name: proto.String(d.N)}
			enums[i] = e
			if d.P == 0 {
				fdp.EnumType = append(fdp.EnumType, e)
			} else {
				msgs[d.P].EnumType = append(msgs[d.P].EnumType, e)
			}
		case "val":
			enums[d.P].Value = append(enums[d.P].Value, &descriptorpb.EnumValueDescriptorProto{Name: proto.String(d.N), Number: proto.Int32(int32(d.Num))})
		case "oneof":
			oneofIdx[i] = int32(len(msgs[d.P].OneofDecl))
			msgs[d.P].OneofDecl = append(msgs[d.P].OneofDecl, &descriptorpb.OneofDescriptorProto{Name: proto.String(d.N)})
		case "field":
			fd := &descriptorpb.FieldDescriptorProto{Name: proto.String(d.N), Number: proto.Int32(int32(d.Num)),
				Label: descriptorpb.FieldDescriptorProto_LABEL_OPTIONAL.Enum(), Type: descriptorpb.FieldDescriptorProto_TYPE_INT32.Enum()}
			if d.O != 0 {
				fd.OneofIndex = proto.Int32(oneofIdx[d.O])
			}
			msgs[d.P].Field = append(msgs[d.P].Field, fd)
		case "ext":
			fd := &descriptorpb.FieldDescriptorProto{Name: proto.String(d.N), Number: proto.Int32(int32(d.Num)),
				Label: descriptorpb.FieldDescriptorProto_LABEL_OPTIONAL.Enum(), Type: descriptorpb.FieldDescriptorProto_TYPE_INT32.Enum(),
				Extendee: proto.String("." + strings.Join(d.X, "."))}
			if d.P == 0 {
				fdp.Extension = append(fdp.Extension, fd)
			} else {
				msgs[d.P].Extension = append(msgs[d.P].Extension, fd)
			}
		case "svc":
			s := &descriptorpb.ServiceDescriptorProto{Name: proto.String(d.N)}
			svcs[i] = s
			fdp.Service = append(fdp.Service, s)
			if len(fdp.Dependency) == 0 {
				fdp.Dependency = []string{"google/protobuf/empty.proto"}
			}
		case "meth":
			svcs[d.P].Method = append(svcs[d.P].Method, &descriptorpb.MethodDescriptorProto{Name: proto.String(d.N),
				InputType: proto.String(".google.protobuf.Empty"), OutputType: proto.String(".google.protobuf.Empty")})
		default:
			panic("harness: declaration kind " + d.K)
		}
	}
	fd, err := protodesc.NewFile(fdp, protoregistry.GlobalFiles)
	if err != nil {
		panic(fmt.Sprintf("harness: abstract file %q is not a valid file: %v", f.Path, err))
	}
	// index every real declaration by full name (own walk over the descriptor, no registry involved)
	byName := map[protoreflect.FullName]protoreflect.Descriptor{}
	var walkMsgs func(ms protoreflect.MessageDescriptors)
	walkEnums := func(es protoreflect.EnumDescriptors) {
		for i := 0; i < es.Len(); i++ {
			byName[es.Get(i).FullName()] = es.Get(i)
			for j := 0; j < es.Get(i).Values().Len(); j++ {
				byName[es.Get(i).Values().Get(j).FullName()] = es.Get(i).Values().Get(j)
			}
		}
	}
	walkExts := func(xs protoreflect.ExtensionDescriptors) {
		for i := 0; i < xs.Len(); i++ {
			byName[xs.Get(i).FullName()] = xs.Get(i)
		}
	}
	walkMsgs = func(ms protoreflect.MessageDescriptors) {
		for i := 0; i < ms.Len(); i++ {
			m := ms.Get(i)
			byName[m.FullName()] = m
			for j := 0; j < m.Fields().Len(); j++ {
				byName[m.Fields().Get(j).FullName()] = m.Fields().Get(j)
			}
			for j := 0; j < m.Oneofs().Len(); j++ {
				byName[m.Oneofs().Get(j).FullName()] = m.Oneofs().Get(j)
			}
			walkEnums(m.Enums())
			walkExts(m.Extensions())
			walkMsgs(m.Messages())
		}
	}
	walkMsgs(fd.Messages())
	walkEnums(fd.Enums())
	walkExts(fd.Extensions())
	for i := 0; i < fd.Services().Len(); i++ {
		s := fd.Services().Get(i)
		byName[s.FullName()] = s
		for j := 0; j < s.Methods().Len(); j++ {
			byName[s.Methods().Get(j).FullName()] = s.Methods().Get(j)
		}
	}
	descs := make([]protoreflect.Descriptor, len(f.Decls)+1)
	descs[0] = fd
	for i := range f.Decls {
		name := protoreflect.FullName(strings.Join(regFullName(f, i+1), "."))
		d := byName[name]
		if d == nil {
			panic(fmt.Sprintf("harness: declaration %s of %q has no descriptor", name, f.Path))
		}
		descs[i+1] = d
	}
	return descs
}

// regFullName mirrors RegistryTable!FullName (used by the generator and to locate built descriptors).
func regFullName(f regFile, i int) []string {
	d := f.Decls[i-1]
	var scope []string
	switch {
	case d.P == 0:
		scope = f.Pkg
	case f.Decls[d.P-1].K == "enum":
		full := regFullName(f, d.P)
		scope = full[:len(full)-1]
	default:
		scope = regFullName(f, d.P)
	}
	return append(append([]string(nil), scope...), d.N)
}

func regExec(c core.Case) core.Case {
	files := regFilesOf(c["files"])
	descs := make([][]protoreflect.Descriptor, len(files))
	rev := map[protoreflect.Descriptor][2]int{}
	for i, f := range files {
		descs[i] = regBuild(f)
		for d, x := range descs[i] {
			rev[x] = [2]int{i + 1, d}
		}
	}
	reg := new(protoregistry.Files)
	types := new(protoregistry.Types)
	var obs []any
	mk := func(r string, ids [][2]int, n int) {
		l := make([]any, len(ids))
		for i, p := range ids {
			l[i] = []any{p[0], p[1]}
		}
		obs = append(obs, core.Case{"r": r, "ids": l, "n": n})
	}
	idOf := func(d protoreflect.Descriptor) [2]int {
		if p, ok := rev[d]; ok {
			return p
		}
		return [2]int{-1, -1}
	}
	listing := func(ids [][2]int) {
		sort.Slice(ids, func(a, b int) bool {
			if ids[a][0] != ids[b][0] {
				return ids[a][0] < ids[b][0]
			}
			return ids[a][1] < ids[b][1]
		})
		mk("ok", ids, len(ids))
	}
	verdict := func(err error) {
		if err == nil {
			mk("ok", nil, 0)
		} else {
			mk("err", nil, 0)
		}
	}
	found := func(d protoreflect.Descriptor, err error) {
		switch {
		case err == nil:
			mk("ok", [][2]int{idOf(d)}, 0)
		case err == protoregistry.NotFound:
			mk("notfound", nil, 0)
		default:
			mk("wrong", nil, 0)
		}
	}
	for _, s := range core.List(c["steps"]) {
		st := core.Map(s)
		name := protoreflect.FullName(strings.Join(regStrs(st["name"]), "."))
		f, d := core.Int(st["f"]), core.Int(st["d"])
		switch op := core.Str(st["op"]); op {
		case "regf":
			verdict(reg.RegisterFile(descs[f-1][0].(protoreflect.FileDescriptor)))
		case "regm":
			verdict(types.RegisterMessage(dynamicpb.NewMessageType(descs[f-1][d].(protoreflect.MessageDescriptor))))
		case "rege":
			verdict(types.RegisterEnum(dynamicpb.NewEnumType(descs[f-1][d].(protoreflect.EnumDescriptor))))
		case "regx":
			verdict(types.RegisterExtension(dynamicpb.NewExtensionType(descs[f-1][d].(protoreflect.ExtensionDescriptor))))
		case "find":
			x, err := reg.FindDescriptorByName(name)
			if err == nil && x.FullName() != name {
				mk("wrongname", nil, 0)
				break
			}
			found(x, err)
		case "path":
			x, err := reg.FindFileByPath(core.Str(st["s"]))
			found(x, err)
		case "nfiles":
			mk("ok", nil, reg.NumFiles())
		case "npkg":
			mk("ok", nil, reg.NumFilesByPackage(name))
		case "rangef":
			var ids [][2]int
			reg.RangeFiles(func(fd protoreflect.FileDescriptor) bool { ids = append(ids, idOf(fd)); return true })
			listing(ids)
		case "rangepkg":
			var ids [][2]int
			reg.RangeFilesByPackage(name, func(fd protoreflect.FileDescriptor) bool { ids = append(ids, idOf(fd)); return true })
			listing(ids)
		case "findm", "url":
			var mt protoreflect.MessageType
			var err error
			if op == "url" {
				mt, err = types.FindMessageByURL(strings.Join(append(regStrs(st["pre"]), string(name)), "/"))
			} else {
				mt, err = types.FindMessageByName(name)
			}
			if err == nil {
				found(mt.Descriptor(), nil)
			} else {
				found(nil, err)
			}
		case "finde":
			et, err := types.FindEnumByName(name)
			if err == nil {
				found(et.Descriptor(), nil)
			} else {
				found(nil, err)
			}
		case "findx", "findxn":
			var xt protoreflect.ExtensionType
			var err error
			if op == "findx" {
				xt, err = types.FindExtensionByName(name)
			} else {
				xt, err = types.FindExtensionByNumber(name, protoreflect.FieldNumber(core.Int(st["num"])))
			}
			if err == nil {
				found(xt.TypeDescriptor().Descriptor(), nil)
			} else {
				found(nil, err)
			}
		case "nm":
			mk("ok", nil, types.NumMessages())
		case "ne":
			mk("ok", nil, types.NumEnums())
		case "nx":
			mk("ok", nil, types.NumExtensions())
		case "nxm":
			mk("ok", nil, types.NumExtensionsByMessage(name))
		case "rangem":
			var ids [][2]int
			types.RangeMessages(func(t protoreflect.MessageType) bool { ids = append(ids, idOf(t.Descriptor())); return true })
			listing(ids)
		case "rangee":
			var ids [][2]int
			types.RangeEnums(func(t protoreflect.EnumType) bool { ids = append(ids, idOf(t.Descriptor())); return true })
			listing(ids)
		case "rangex":
			var ids [][2]int
			types.RangeExtensions(func(t protoreflect.ExtensionType) bool {
				ids = append(ids, idOf(t.TypeDescriptor().Descriptor()))
				return true
			})
			listing(ids)
		case "rangexm":
			var ids [][2]int
			types.RangeExtensionsByMessage(name, func(t protoreflect.ExtensionType) bool {
				ids = append(ids, idOf(t.TypeDescriptor().Descriptor()))
				return true
			})
			listing(ids)
		default:
			panic("harness: unknown registry op " + op)
		}
	}
	return core.Case{"obs": obs}
}

// ---------------------------------------------------------------------------- generator
var regPkgs = [][]string{{}, {"a"}, {"a", "b"}, {"a", "b", "c"}, {"b"}, {"c"}, {"a", "M"}}
var regNames = []string{"a", "b", "c", "M", "E", "V", "S", "x"}

// regRandFile draws a valid abstract file: names are unique per scope (enum values live in the scope of their enum).
func regRandFile(r *rand.Rand, path string) regFile {
	f := regFile{Path: path, Pkg: regPkgs[r.IntN(len(regPkgs))]}
	used := map[string]bool{}
	key := func(scope []string, n string) string { return strings.Join(scope, ".") + "/" + n }
	pick := func(scope []string) string {
		for try := 0; try < 20; try++ {
			n := regNames[r.IntN(len(regNames))]
			if !used[key(scope, n)] {
				used[key(scope, n)] = true
				return n
			}
		}
		return ""
	}
	add := func(d regDecl) int {
		f.Decls = append(f.Decls, d)
		return len(f.Decls)
	}
	scopeOf := func(p int) []string {
		if p == 0 {
			return f.Pkg
		}
		return regFullName(f, p)
	}
	var msgIdx []int
	extUsed := map[string]bool{}
	extNum := func(t int) int { // an extension number of message t that this file has not used yet
		for n := 100 + r.IntN(2); ; n++ {
			k := fmt.Sprint(t, "/", n)
			if !extUsed[k] {
				extUsed[k] = true
				return n
			}
		}
	}
	var addEnum func(p int)
	var addMsg func(p, depth int)
	addEnum = func(p int) {
		sc := scopeOf(p)
		n := pick(sc)
		if n == "" {
			return
		}
		e := add(regDecl{K: "enum", N: n, P: p})
		nv := 0
		for k := 1 + r.IntN(3); k > 0; k-- {
			if vn := pick(sc); vn != "" {
				add(regDecl{K: "val", N: vn, P: e, Num: nv})
				nv++
			}
		}
		if nv == 0 { // every scope name is taken: drop the enum again
			f.Decls = f.Decls[:e-1]
		}
	}
	addMsg = func(p, depth int) {
		n := pick(scopeOf(p))
		if n == "" {
			return
		}
		m := add(regDecl{K: "msg", N: n, P: p})
		msgIdx = append(msgIdx, m)
		sc := scopeOf(m)
		num := 1
		for k := r.IntN(4); k > 0; k-- {
			switch r.IntN(6) {
			case 0, 1:
				if fn := pick(sc); fn != "" {
					add(regDecl{K: "field", N: fn, P: m, Num: num})
					num++
				}
			case 2:
				on, fn := pick(sc), pick(sc)
				if on != "" && fn != "" {
					o := add(regDecl{K: "oneof", N: on, P: m})
					add(regDecl{K: "field", N: fn, P: m, Num: num, O: o})
					num++
				}
			case 3:
				addEnum(m)
			case 4:
				if depth > 0 {
					addMsg(m, depth-1)
				}
			case 5:
				if xn := pick(sc); xn != "" {
					t := msgIdx[r.IntN(len(msgIdx))]
					add(regDecl{K: "ext", N: xn, P: m, Num: extNum(t), X: regFullName(f, t)})
				}
			}
		}
	}
	for k := 1 + r.IntN(4); k > 0; k-- {
		switch r.IntN(7) {
		case 0, 1, 2:
			addMsg(0, 2)
		case 3:
			addEnum(0)
		case 4:
			if len(msgIdx) > 0 {
				if xn := pick(f.Pkg); xn != "" {
					t := msgIdx[r.IntN(len(msgIdx))]
					add(regDecl{K: "ext", N: xn, P: 0, Num: extNum(t), X: regFullName(f, t)})
				}
			}
		case 5:
			if sn := pick(f.Pkg); sn != "" {
				s := add(regDecl{K: "svc", N: sn, P: 0})
				sc := scopeOf(s)
				for j := r.IntN(3); j > 0; j-- {
					if mn := pick(sc); mn != "" {
						add(regDecl{K: "meth", N: mn, P: s})
					}
				}
			}
		default:
			addMsg(0, 1)
		}
	}
	if len(f.Decls) == 0 {
		f.Decls = append(f.Decls, regDecl{K: "msg", N: "M", P: 0})
	}
	return f
}

func regGen(r *rand.Rand, n int, emit func(core.Case)) {
	q := func(op string, f, d int, name, pre []string, s string, num int) core.Case {
		return core.Case{"op": op, "f": f, "d": d, "name": regAnyStrs(name), "pre": regAnyStrs(pre), "s": s, "num": num}
	}
	for i := 0; i < n; i++ {
		nf := 2 + r.IntN(4)
		files := make([]regFile, nf)
		paths := []string{"p1", "p2", "p3", "p4"}
		for j := range files {
			files[j] = regRandFile(r, paths[r.IntN(len(paths))])
			// a twin: the same package and declarations under another path, with some declarations renamed, so that
			// equal (extended message, number) pairs and equal full names meet under different names and kinds
			if j > 0 && r.IntN(3) == 0 {
				src := files[r.IntN(j)]
				tw := regFile{Path: paths[r.IntN(len(paths))], Pkg: src.Pkg, Decls: append([]regDecl(nil), src.Decls...)}
				for d := range tw.Decls {
					if tw.Decls[d].K != "msg" && r.IntN(2) == 0 {
						tw.Decls[d].N = tw.Decls[d].N + "2"
					}
				}
				files[j] = tw
			}
		}
		// the names worth asking about
		var names [][]string
		var tcands [][2]int
		var extKeys [][]string
		var extNums []int
		for fi, f := range files {
			for k := 1; k <= len(f.Pkg); k++ {
				names = append(names, f.Pkg[:k])
			}
			for d := range f.Decls {
				full := regFullName(f, d+1)
				names = append(names, full)
				switch f.Decls[d].K {
				case "msg", "enum", "ext":
					tcands = append(tcands, [2]int{fi + 1, d + 1})
				case "val": // the enum-qualified form of a value name is not a name
					names = append(names, append(regFullName(f, f.Decls[d].P), f.Decls[d].N))
				}
				if f.Decls[d].K == "ext" {
					extKeys = append(extKeys, f.Decls[d].X)
					extNums = append(extNums, f.Decls[d].Num)
				}
			}
		}
		randName := func() []string {
			nm := append([]string(nil), names[r.IntN(len(names))]...)
			switch r.IntN(10) {
			case 0:
				nm = append(nm, regNames[r.IntN(len(regNames))])
			case 1:
				if len(nm) > 1 {
					nm = nm[:len(nm)-1]
				}
			case 2:
				nm[r.IntN(len(nm))] = regNames[r.IntN(len(regNames))]
			}
			return nm
		}
		// type lookups mostly ask for names of declarations that can be registered as types
		typeName := func() []string {
			if len(tcands) > 0 && r.IntN(10) < 7 {
				p := tcands[r.IntN(len(tcands))]
				return regFullName(files[p[0]-1], p[1])
			}
			return randName()
		}
		var steps []any
		for k := 6 + r.IntN(12); k > 0; k-- {
			switch r.IntN(20) {
			case 0, 1, 2, 3:
				steps = append(steps, q("regf", 1+r.IntN(nf), 0, nil, nil, "", 0))
			case 4, 5, 6:
				steps = append(steps, q("find", 0, 0, randName(), nil, "", 0))
			case 7:
				steps = append(steps, q("path", 0, 0, nil, nil, append(paths, "zz")[r.IntN(5)], 0))
			case 8:
				steps = append(steps, q([]string{"nfiles", "rangef"}[r.IntN(2)], 0, 0, nil, nil, "", 0))
			case 9:
				nm := randName()
				if r.IntN(4) == 0 {
					nm = nil
				}
				steps = append(steps, q([]string{"npkg", "rangepkg"}[r.IntN(2)], 0, 0, nm, nil, "", 0))
			case 10, 11, 12, 13:
				if len(tcands) > 0 {
					p := tcands[r.IntN(len(tcands))]
					op := map[string]string{"msg": "regm", "enum": "rege", "ext": "regx"}[files[p[0]-1].Decls[p[1]-1].K]
					steps = append(steps, q(op, p[0], p[1], nil, nil, "", 0))
				}
			case 14, 15:
				steps = append(steps, q([]string{"findm", "finde", "findx"}[r.IntN(3)], 0, 0, typeName(), nil, "", 0))
			case 16:
				pre := [][]string{nil, {"type.googleapis.com"}, {"", "a.b", ""}, {""}}[r.IntN(4)]
				steps = append(steps, q("url", 0, 0, typeName(), pre, "", 0))
			case 17:
				nm, num := randName(), 99+r.IntN(4)
				if len(extKeys) > 0 && r.IntN(4) != 0 {
					x := r.IntN(len(extKeys))
					nm = extKeys[x]
					if r.IntN(4) != 0 {
						num = extNums[x]
					}
				}
				steps = append(steps, q([]string{"findxn", "nxm", "rangexm"}[r.IntN(3)], 0, 0, nm, nil, "", num))
			default:
				steps = append(steps, q([]string{"nm", "ne", "nx", "rangem", "rangee", "rangex"}[r.IntN(6)], 0, 0, nil, nil, "", 0))
			}
		}
		fc := make([]any, nf)
		for j, f := range files {
			fc[j] = f.toCase()
		}
		emit(core.Case{"files": fc, "steps": steps})
	}
}
