// Package misc holds the harness modules of the "misc" family:
//
//	delim     protodelim stream histories            (C27, spec/misc/Delim.tla)
//	rangewalk protorange traversals of message trees (C32, spec/misc/RangeWalk.tla)
//	registry  protoregistry Files/Types histories    (C33, spec/misc/RegistryTable.tla)
package misc

import (
	"bufio"
	"bytes"
	"errors"
	"io"
	"math/rand/v2"

	"google.golang.org/protobuf/encoding/protodelim"
	"google.golang.org/protobuf/internal/verifh/core"
	"google.golang.org/protobuf/proto"
	"google.golang.org/protobuf/types/known/wrapperspb"
)

// Module "delim": one case is one whole history
//
//	{rd: {kind, k}, steps: [{op, a, b, v}]}   ->   out {obs: [{r, n, m, pos, v}]}
//
//	op "w"   MarshalTo(BytesValue{payload(a, b)}) onto the stream
//	op "raw" append the bytes v to the stream
//	op "t"   truncate the stream to a bytes
//	op "r"   UnmarshalFrom with MaxSize = int64(v) through the reader rd; the history ends with the first failing read
func init() {
	core.Register(&core.Module{Name: "delim", Exec: delimExec, Gen: delimGen})
}

func delimPayload(n, fill int) []byte {
	p := make([]byte, n)
	for k := 1; k <= n; k++ {
		p[k-1] = byte(7*k + fill)
	}
	return p
}

// delimID recognises the model's messages: [len, fill], or [-1, -1].
func delimID(p []byte) []any {
	if len(p) == 0 {
		return []any{0, 0}
	}
	fill := int(byte(p[0] - 7))
	if bytes.Equal(p, delimPayload(len(p), fill)) {
		return []any{len(p), fill}
	}
	return []any{-1, -1}
}

// delimSrc is the byte source below every reader; it counts what has been taken from it.
type delimSrc struct {
	b       []byte
	off     int
	chunk   int  // largest Read result; 0 = unlimited
	dataErr bool // deliver io.EOF together with the last bytes
}

func (s *delimSrc) Read(p []byte) (int, error) {
	if len(p) == 0 {
		return 0, nil
	}
	if s.off >= len(s.b) {
		return 0, io.EOF
	}
	n := len(p)
	if s.chunk > 0 && n > s.chunk {
		n = s.chunk
	}
	if n > len(s.b)-s.off {
		n = len(s.b) - s.off
	}
	copy(p, s.b[s.off:s.off+n])
	s.off += n
	if s.dataErr && s.off == len(s.b) {
		return n, io.EOF
	}
	return n, nil
}

func (s *delimSrc) ReadByte() (byte, error) {
	if s.off >= len(s.b) {
		return 0, io.EOF
	}
	c := s.b[s.off]
	s.off++
	return c, nil
}

type delimReader struct {
	r        protodelim.Reader
	consumed func() int
}

func newDelimReader(kind string, k int, stream []byte) delimReader {
	src := &delimSrc{b: stream}
	direct := delimReader{r: src, consumed: func() int { return src.off }}
	buffered := func(size int) delimReader {
		br := bufio.NewReaderSize(src, size)
		return delimReader{r: br, consumed: func() int { return src.off - br.Buffered() }}
	}
	switch kind {
	case "full":
		return direct
	case "byte":
		src.chunk = 1
		return direct
	case "chunk":
		src.chunk = k
		return direct
	case "dataerr":
		src.dataErr = true
		return direct
	case "bufio":
		return buffered(k)
	case "bufio1":
		src.chunk = 1
		return buffered(k)
	case "bufioerr":
		src.dataErr = true
		return buffered(k)
	}
	panic("harness: unknown reader kind " + kind)
}

func delimExec(c core.Case) core.Case {
	rd := core.Map(c["rd"])
	var stream bytes.Buffer
	var written []proto.Message
	var reader *delimReader
	nread := 0
	var obs []any
	mk := func(r string, n int, m []any, pos int, v []any) {
		if m == nil {
			m = []any{}
		}
		if v == nil {
			v = []any{}
		}
		obs = append(obs, core.Case{"r": r, "n": n, "m": m, "pos": pos, "v": v})
	}
loop:
	for _, s := range core.List(c["steps"]) {
		st := core.Map(s)
		switch core.Str(st["op"]) {
		case "w":
			if reader != nil {
				panic("harness: write after the first read")
			}
			m := &wrapperspb.BytesValue{Value: delimPayload(core.Int(st["a"]), core.Int(st["b"]))}
			before := stream.Len()
			n, err := protodelim.MarshalTo(&stream, m)
			if err != nil {
				mk("err", n, nil, stream.Len(), nil)
				break loop
			}
			written = append(written, m)
			app := stream.Bytes()[before:]
			// the size header: everything up to and including the first byte below 0x80
			hn := 0
			for hn < len(app) && hn < 10 {
				hn++
				if app[hn-1] < 0x80 {
					break
				}
			}
			if n != len(app) {
				n = -n - 1 // the returned count must be what reached the writer
			}
			mk("ok", n, core.B(app[:hn]), stream.Len(), nil)
		case "raw":
			v := core.Bytes(st["v"])
			stream.Write(v)
			mk("ok", len(v), nil, stream.Len(), nil)
		case "t":
			stream.Truncate(core.Int(st["a"]))
			mk("ok", 0, nil, stream.Len(), nil)
		case "r":
			if reader == nil {
				r := newDelimReader(core.Str(rd["kind"]), core.Int(rd["k"]), append([]byte(nil), stream.Bytes()...))
				reader = &r
			}
			max := int64(core.U64(st["v"]))
			got := &wrapperspb.BytesValue{Value: []byte("stale")}
			err := protodelim.UnmarshalOptions{MaxSize: max}.UnmarshalFrom(reader.r, got)
			var tl *protodelim.SizeTooLargeError
			switch {
			case err == nil:
				eq := 0
				if nread < len(written) && proto.Equal(written[nread], got) {
					eq = 1
				}
				nread++
				id := delimID(got.GetValue())
				if len(got.ProtoReflect().GetUnknown()) != 0 {
					id = []any{-2, -2}
				}
				mk("ok", eq, id, reader.consumed(), nil)
			case err == io.EOF:
				mk("eof", 0, nil, reader.consumed(), nil)
			case errors.As(err, &tl):
				mk("toolarge", 0, nil, -1, append(core.FromU64(tl.Size), core.FromU64(tl.MaxSize)...))
				break loop
			case errors.Is(err, io.ErrUnexpectedEOF):
				mk("ueof", 0, nil, -1, nil)
				break loop
			default:
				mk("other", 0, nil, -1, nil)
				break loop
			}
		default:
			panic("harness: unknown delim op")
		}
	}
	return core.Case{"obs": obs}
}

// delimGen: random histories.  Lengths concentrate on the boundaries of the size varint; the tail,
// the cut and the limits are drawn around the frames that were written.
func delimGen(r *rand.Rand, n int, emit func(core.Case)) {
	lens := []int{0, 1, 2, 3, 13, 123, 124, 125, 126, 127, 128, 129, 130, 300, 1000}
	raws := [][]byte{{0x80}, {0x80, 0x80}, {0x80, 0}, {0x81, 0x80, 0}, {5, 10, 3, 1}, {0x80, 0x80, 0x80, 2}, {0x81, 0x80, 0x80, 2},
		{0x80, 0x80, 0x80, 0x80, 0x10}, {0x80, 0x80, 0x80, 0x80, 0x80, 0x80, 0x80, 0x80, 0x80, 1},
		{0xff, 0xff, 0xff, 0xff, 0xff, 0xff, 0xff, 0xff, 0xff, 1}, {0xff, 0xff, 0xff, 0xff, 0xff, 0xff, 0xff, 0xff, 0xff, 2},
		{0xff, 0xff, 0xff, 0xff, 0x07}, {0xff, 0xff, 0xff, 0xff, 0xff, 0xff, 0xff, 0xff, 0x7f}}
	kinds := []string{"bufio", "bufio", "bufio1", "bufioerr", "byte", "chunk", "full", "dataerr"}
	step := func(op string, a, b int, v []any) core.Case {
		if v == nil {
			v = []any{}
		}
		return core.Case{"op": op, "a": a, "b": b, "v": v}
	}
	bodyLen := func(pl int) int {
		if pl == 0 {
			return 0
		}
		return 1 + varintLen(pl) + pl
	}
	for i := 0; i < n; i++ {
		var steps []any
		nm := r.IntN(5)
		total := 0
		var bodies []int
		for j := 0; j < nm; j++ {
			var pl int
			switch r.IntN(10) {
			case 0:
				pl = r.IntN(400)
			case 1:
				pl = []int{16379, 16380, 16381, 16382}[r.IntN(4)]
				if r.IntN(4) != 0 {
					pl = lens[r.IntN(len(lens))]
				}
			default:
				pl = lens[r.IntN(len(lens))]
			}
			steps = append(steps, step("w", pl, r.IntN(256), nil))
			bl := bodyLen(pl)
			total += varintLen(bl) + bl
			bodies = append(bodies, bl)
		}
		hasRaw := r.IntN(4) == 0
		if hasRaw {
			raw := raws[r.IntN(len(raws))]
			steps = append(steps, step("raw", 0, 0, core.B(raw)))
			total += len(raw)
		}
		if total > 0 && r.IntN(3) != 0 {
			steps = append(steps, step("t", r.IntN(total), 0, nil))
		}
		nr := nm + 1 + r.IntN(2)
		for j := 0; j < nr; j++ {
			var max int64
			switch r.IntN(8) {
			case 0:
				max = -1
			case 1, 2:
				max = 0
			case 3:
				max = int64(r.IntN(400))
			case 4:
				max = 1 << 40
			default:
				// around the body length of the frame this read meets when all earlier reads succeeded
				if j < len(bodies) {
					max = int64(bodies[j] + r.IntN(3) - 1)
				} else {
					max = int64(r.IntN(8))
				}
			}
			if hasRaw && (max == -1 || max > 1<<24) {
				max = 0 // a raw tail may announce terabytes; without a limit UnmarshalFrom would try to allocate them
			}
			steps = append(steps, step("r", 0, 0, core.FromU64(uint64(max))))
		}
		kind := kinds[r.IntN(len(kinds))]
		k := []int{1, 2, 3, 7, 16, 17, 31, 64, 128, 131, 4096, 65536}[r.IntN(12)]
		if kind != "chunk" && k < 16 {
			k = 16
		}
		emit(core.Case{"rd": core.Case{"kind": kind, "k": k}, "steps": steps})
	}
}

func varintLen(v int) int {
	n := 1
	for v >= 0x80 {
		v >>= 7
		n++
	}
	return n
}
