package misc

import (
	"errors"
	"fmt"
	"hash/fnv"
	"math/rand/v2"
	"sort"
	"strconv"
	"strings"
	"sync"

	"google.golang.org/protobuf/internal/verifh/core"
	"google.golang.org/protobuf/proto"
	"google.golang.org/protobuf/reflect/protodesc"
	"google.golang.org/protobuf/reflect/protopath"
	"google.golang.org/protobuf/reflect/protorange"
	"google.golang.org/protobuf/reflect/protoreflect"
	"google.golang.org/protobuf/reflect/protoregistry"
	"google.golang.org/protobuf/types/descriptorpb"
	"google.golang.org/protobuf/types/dynamicpb"
	"google.golang.org/protobuf/types/known/anypb"

	newspb "google.golang.org/protobuf/internal/testprotos/news"
	testpb "google.golang.org/protobuf/internal/testprotos/test"
	test3pb "google.golang.org/protobuf/internal/testprotos/test3"
	testeditionspb "google.golang.org/protobuf/internal/testprotos/testeditions"
	testeditionsopaquepb "google.golang.org/protobuf/internal/testprotos/testeditions/testeditions_opaque"
	textpb2 "google.golang.org/protobuf/internal/testprotos/textpb2"
)

// Module "rangewalk" (C32, spec/misc/RangeWalk.tla).
//
//	{tree: [node], ctl: [[k, code]], stable: 0|1, cb}    the message is built from the tree of steps (schema rw.N, dynamicpb)
//	{typ, b, ctl, stable, cb}                            the message is typ decoded from b; out.tree is its projection
//	-> out {walk, vals, ret, ok, valid, npush, nev, ids [, tree]}
//
// cb = 0: Options.Range with push and pop; 1: push only (the function protorange.Range where the global resolver applies);
// 2: pop only.
//
// node = {p, s, f, c, t, v}, see RangeWalk.tla.  walk: i = push of node i, -i = pop.
func init() {
	core.Register(&core.Module{Name: "rangewalk", Exec: rwExec, Gen: rwGen})
}

type rwNode struct {
	P int
	S string
	F []int
	C string
	T string
	V int
}

func (n rwNode) toCase() core.Case {
	f := make([]any, len(n.F))
	for i, x := range n.F {
		f[i] = x
	}
	return core.Case{"p": n.P, "s": n.S, "f": f, "c": n.C, "t": n.T, "v": n.V}
}

func rwTreeOf(v any) []rwNode {
	var t []rwNode
	for _, x := range core.List(v) {
		m := core.Map(x)
		n := rwNode{P: core.Int(m["p"]), S: core.Str(m["s"]), C: core.Str(m["c"]), T: core.Str(m["t"]), V: core.Int(m["v"])}
		for _, y := range core.List(m["f"]) {
			n.F = append(n.F, core.Int(y))
		}
		t = append(t, n)
	}
	return t
}

// ---------------------------------------------------------------------------- schema rw.N
type rwEnv struct {
	n     protoreflect.MessageDescriptor
	anyMD protoreflect.MessageDescriptor
	xts   map[int]protoreflect.ExtensionType
	types *protoregistry.Types
}

var rwEnvOnce sync.Once
var rwEnvVal *rwEnv

func rwSchema() *rwEnv {
	rwEnvOnce.Do(func() {
		opt, rep := descriptorpb.FieldDescriptorProto_LABEL_OPTIONAL, descriptorpb.FieldDescriptorProto_LABEL_REPEATED
		i32, msg, str, boo := descriptorpb.FieldDescriptorProto_TYPE_INT32, descriptorpb.FieldDescriptorProto_TYPE_MESSAGE,
			descriptorpb.FieldDescriptorProto_TYPE_STRING, descriptorpb.FieldDescriptorProto_TYPE_BOOL
		fld := func(name string, num int32, lab descriptorpb.FieldDescriptorProto_Label, ty descriptorpb.FieldDescriptorProto_Type, tn string) *descriptorpb.FieldDescriptorProto {
			f := &descriptorpb.FieldDescriptorProto{Name: proto.String(name), Number: proto.Int32(num), Label: lab.Enum(), Type: ty.Enum()}
			if tn != "" {
				f.TypeName = proto.String(tn)
			}
			return f
		}
		entry := func(name string, kt descriptorpb.FieldDescriptorProto_Type, vt descriptorpb.FieldDescriptorProto_Type, vtn string) *descriptorpb.DescriptorProto {
			return &descriptorpb.DescriptorProto{Name: proto.String(name), Options: &descriptorpb.MessageOptions{MapEntry: proto.Bool(true)},
				Field: []*descriptorpb.FieldDescriptorProto{fld("key", 1, opt, kt, ""), fld("value", 2, opt, vt, vtn)}}
		}
		oi, om := fld("oi", 9, opt, i32, ""), fld("om", 10, opt, msg, ".rw.N")
		oi.OneofIndex, om.OneofIndex = proto.Int32(0), proto.Int32(0)
		ext := func(name string, num int32, lab descriptorpb.FieldDescriptorProto_Label, ty descriptorpb.FieldDescriptorProto_Type, tn string) *descriptorpb.FieldDescriptorProto {
			f := fld(name, num, lab, ty, tn)
			f.Extendee = proto.String(".rw.N")
			return f
		}
		fdp := &descriptorpb.FileDescriptorProto{
			Name: proto.String("verif/rw.proto"), Package: proto.String("rw"), Syntax: proto.String("proto2"),
			Dependency: []string{"google/protobuf/any.proto"},
			MessageType: []*descriptorpb.DescriptorProto{{
				Name: proto.String("N"),
				Field: []*descriptorpb.FieldDescriptorProto{
					fld("a", 1, opt, i32, ""), fld("m", 2, opt, msg, ".rw.N"), fld("ri", 3, rep, i32, ""), fld("rm", 4, rep, msg, ".rw.N"),
					fld("mi", 5, rep, msg, ".rw.N.MiEntry"), fld("mm", 6, rep, msg, ".rw.N.MmEntry"),
					fld("y", 7, opt, msg, ".google.protobuf.Any"), fld("ry", 8, rep, msg, ".google.protobuf.Any"), oi, om,
					fld("ms", 11, rep, msg, ".rw.N.MsEntry"), fld("mb", 12, rep, msg, ".rw.N.MbEntry"),
				},
				NestedType: []*descriptorpb.DescriptorProto{entry("MiEntry", i32, i32, ""), entry("MmEntry", i32, msg, ".rw.N"),
					entry("MsEntry", str, i32, ""), entry("MbEntry", boo, msg, ".rw.N")},
				OneofDecl:      []*descriptorpb.OneofDescriptorProto{{Name: proto.String("o")}},
				ExtensionRange: []*descriptorpb.DescriptorProto_ExtensionRange{{Start: proto.Int32(100), End: proto.Int32(200)}},
			}},
			Extension: []*descriptorpb.FieldDescriptorProto{ext("xi", 100, opt, i32, ""), ext("xm", 101, opt, msg, ".rw.N"), ext("xr", 102, rep, msg, ".rw.N")},
		}
		_ = anypb.File_google_protobuf_any_proto
		fd, err := protodesc.NewFile(fdp, protoregistry.GlobalFiles)
		if err != nil {
			panic("harness: rw schema: " + err.Error())
		}
		e := &rwEnv{n: fd.Messages().Get(0), anyMD: (&anypb.Any{}).ProtoReflect().Descriptor(), xts: map[int]protoreflect.ExtensionType{}, types: new(protoregistry.Types)}
		e.types.RegisterMessage(dynamicpb.NewMessageType(e.n))
		e.types.RegisterMessage((&anypb.Any{}).ProtoReflect().Type())
		for i := 0; i < fd.Extensions().Len(); i++ {
			xt := dynamicpb.NewExtensionType(fd.Extensions().Get(i))
			e.xts[int(xt.TypeDescriptor().Number())] = xt
			e.types.RegisterExtension(xt)
		}
		rwEnvVal = e
	})
	return rwEnvVal
}

type rwResolver interface {
	protoregistry.ExtensionTypeResolver
	protoregistry.MessageTypeResolver
}

// rwResolveAny returns the body of a resolvable Any (what "resolvable Any body" means in the property), else nil.
func rwResolveAny(m protoreflect.Message, res rwResolver) protoreflect.Message {
	md := m.Descriptor()
	if md.FullName() != "google.protobuf.Any" {
		return nil
	}
	url := m.Get(md.Fields().ByNumber(1)).String()
	val := m.Get(md.Fields().ByNumber(2)).Bytes()
	mt, err := res.FindMessageByURL(url)
	if err != nil {
		return nil
	}
	m2 := mt.New()
	if (proto.UnmarshalOptions{AllowPartial: true, Resolver: res}).Unmarshal(val, m2.Interface()) != nil {
		return nil
	}
	return m2
}

// ---------------------------------------------------------------------------- value codes and sort keys
func rwHash(s string) int {
	h := fnv.New32a()
	h.Write([]byte(s))
	return int(h.Sum32()%(1<<29)) + 1<<20
}

func rwLeafCode(v protoreflect.Value) int {
	small := func(x int64, neg bool) int {
		if !neg && x >= 0 && x < 1<<20 {
			return int(x)
		}
		return rwHash("i" + strconv.FormatInt(x, 10))
	}
	switch x := v.Interface().(type) {
	case bool:
		if x {
			return 1
		}
		return 0
	case int32:
		return small(int64(x), false)
	case int64:
		return small(x, false)
	case uint32:
		return small(int64(x), false)
	case uint64:
		if x < 1<<20 {
			return int(x)
		}
		return rwHash("u" + strconv.FormatUint(x, 10))
	case protoreflect.EnumNumber:
		return small(int64(x), false)
	case float32:
		return rwHash("f" + strconv.FormatFloat(float64(x), 'g', -1, 32))
	case float64:
		return rwHash("d" + strconv.FormatFloat(x, 'g', -1, 64))
	case string:
		return rwHash("s" + x)
	case []byte:
		return rwHash("b" + string(x))
	}
	return -7
}

func rwKeyF(k protoreflect.MapKey) []int {
	switch x := k.Interface().(type) {
	case bool:
		if x {
			return []int{1}
		}
		return []int{0}
	case int32:
		return []int{int(x)}
	case int64:
		return []int{int(x)}
	case uint32:
		return []int{int(x)}
	case uint64:
		return []int{int(x)}
	case string:
		f := make([]int, len(x))
		for i := 0; i < len(x); i++ {
			f[i] = int(x[i])
		}
		return f
	}
	panic("harness: map key type")
}

func rwStepKey(s string, f []int) string {
	switch s {
	case "root":
		return "R"
	case "any":
		return "a"
	case "unknown":
		return "u"
	}
	parts := make([]string, len(f))
	for i, x := range f {
		parts[i] = strconv.Itoa(x)
	}
	return s[:1] + strings.Join(parts, ",")
}

// rwTreeKeys maps the path key of every node to its index (1-based).
func rwTreeKeys(t []rwNode) map[string]int {
	keys := make([]string, len(t)+1)
	var keyOf func(i int) string
	keyOf = func(i int) string {
		if keys[i] == "" {
			k := rwStepKey(t[i-1].S, t[i-1].F)
			if t[i-1].P != 0 {
				k = keyOf(t[i-1].P) + "/" + k
			}
			keys[i] = k
		}
		return keys[i]
	}
	m := map[string]int{}
	for i := 1; i <= len(t); i++ {
		m[keyOf(i)] = i
	}
	return m
}

// ---------------------------------------------------------------------------- projection: message -> tree of steps
// It uses only Message.Range / Get / GetUnknown, List.Get, Map.Range (no ordering, no protorange, no protopath).
type rwProj struct {
	t   []rwNode
	res rwResolver
}

func (pj *rwProj) add(p int, s string, f []int, c string, v int) int {
	pj.t = append(pj.t, rwNode{P: p, S: s, F: f, C: c, V: v})
	return len(pj.t)
}

func (pj *rwProj) message(m protoreflect.Message, p int, s string, f []int) {
	id := pj.add(p, s, f, "msg", 0)
	if m.Descriptor().FullName() == "google.protobuf.Any" {
		pj.t[id-1].T = "Any"
	} else {
		pj.t[id-1].T = "N"
	}
	if m2 := rwResolveAny(m, pj.res); m2 != nil {
		pj.t[id-1].C = "anymsg"
		pj.message(m2, id, "any", nil)
		return
	}
	m.Range(func(fd protoreflect.FieldDescriptor, v protoreflect.Value) bool {
		ff := []int{int(fd.Number())}
		switch {
		case fd.IsMap():
			mid := pj.add(id, "field", ff, "map", 0)
			v.Map().Range(func(k protoreflect.MapKey, mv protoreflect.Value) bool {
				if fd.MapValue().Message() != nil {
					pj.message(mv.Message(), mid, "key", rwKeyF(k))
				} else {
					pj.add(mid, "key", rwKeyF(k), "leaf", rwLeafCode(mv))
				}
				return true
			})
		case fd.IsList():
			lid := pj.add(id, "field", ff, "list", 0)
			for i := 0; i < v.List().Len(); i++ {
				if fd.Message() != nil {
					pj.message(v.List().Get(i).Message(), lid, "index", []int{i})
				} else {
					pj.add(lid, "index", []int{i}, "leaf", rwLeafCode(v.List().Get(i)))
				}
			}
		case fd.Message() != nil:
			pj.message(v.Message(), id, "field", ff)
		default:
			pj.add(id, "field", ff, "leaf", rwLeafCode(v))
		}
		return true
	})
	if u := m.GetUnknown(); len(u) > 0 {
		pj.add(id, "unknown", nil, "leaf", len(u))
	}
}

func rwProject(m protoreflect.Message, res rwResolver) []rwNode {
	pj := &rwProj{res: res}
	pj.message(m, 0, "root", nil)
	return pj.t
}

// ---------------------------------------------------------------------------- construction: tree of steps -> rw.N message
func rwBuild(t []rwNode) protoreflect.Message {
	env := rwSchema()
	kids := make([][]int, len(t)+1)
	for i, n := range t {
		if n.P > 0 {
			kids[n.P] = append(kids[n.P], i+1)
		}
	}
	var fill func(m protoreflect.Message, i int)
	// anyOf builds the Any whose body is the child of node i
	fillAny := func(m protoreflect.Message, i int) {
		if len(kids[i]) != 1 {
			panic("harness: anymsg node needs one child")
		}
		b := kids[i][0]
		var body protoreflect.Message
		if t[b-1].C == "anymsg" {
			body = dynamicpb.NewMessage(env.anyMD)
		} else {
			body = dynamicpb.NewMessage(env.n)
		}
		fill(body, b)
		raw, err := proto.MarshalOptions{Deterministic: true}.Marshal(body.Interface())
		if err != nil {
			panic(err)
		}
		md := m.Descriptor()
		m.Set(md.Fields().ByNumber(1), protoreflect.ValueOfString("type.googleapis.com/"+string(body.Descriptor().FullName())))
		m.Set(md.Fields().ByNumber(2), protoreflect.ValueOfBytes(raw))
	}
	fill = func(m protoreflect.Message, i int) {
		if t[i-1].C == "anymsg" {
			fillAny(m, i)
			return
		}
		for _, j := range kids[i] {
			n := t[j-1]
			if n.S == "unknown" {
				var u []byte
				for len(u) < n.V {
					u = append(u, 0xc0, 0x3e, 0x01) // field 1000, varint 1
				}
				m.SetUnknown(u)
				continue
			}
			num := n.F[0]
			fd := m.Descriptor().Fields().ByNumber(protoreflect.FieldNumber(num))
			if fd == nil {
				xt := env.xts[num]
				if xt == nil {
					panic(fmt.Sprintf("harness: no field %d", num))
				}
				fd = xt.TypeDescriptor()
			}
			elem := func(k int, newv func() protoreflect.Value) protoreflect.Value {
				if t[k-1].C == "leaf" {
					return protoreflect.ValueOfInt32(int32(t[k-1].V))
				}
				v := newv()
				fill(v.Message(), k)
				return v
			}
			switch n.C {
			case "leaf":
				m.Set(fd, protoreflect.ValueOfInt32(int32(n.V)))
			case "msg", "anymsg":
				v := m.NewField(fd)
				fill(v.Message(), j)
				m.Set(fd, v)
			case "list":
				l := m.Mutable(fd).List()
				ks := append([]int(nil), kids[j]...)
				sort.Slice(ks, func(a, b int) bool { return t[ks[a]-1].F[0] < t[ks[b]-1].F[0] })
				for _, k := range ks {
					l.Append(elem(k, l.NewElement))
				}
			case "map":
				mp := m.Mutable(fd).Map()
				for _, k := range kids[j] {
					var key protoreflect.MapKey
					f := t[k-1].F
					switch fd.MapKey().Kind() {
					case protoreflect.BoolKind:
						key = protoreflect.ValueOfBool(f[0] == 1).MapKey()
					case protoreflect.StringKind:
						b := make([]byte, len(f))
						for x := range f {
							b[x] = byte(f[x])
						}
						key = protoreflect.ValueOfString(string(b)).MapKey()
					default:
						key = protoreflect.ValueOfInt32(int32(f[0])).MapKey()
					}
					mp.Set(key, elem(k, mp.NewValue))
				}
			default:
				panic("harness: node class " + n.C)
			}
		}
	}
	var root protoreflect.Message
	if t[0].C == "anymsg" {
		root = dynamicpb.NewMessage(env.anyMD)
	} else {
		root = dynamicpb.NewMessage(env.n)
	}
	fill(root, 1)
	return root
}

// ---------------------------------------------------------------------------- the traversal under observation
var rwErr3, rwErr4 = errors.New("verif: error 3"), errors.New("verif: error 4")

func rwCode(c int) error {
	switch c {
	case 0:
		return nil
	case 1:
		return protorange.Break
	case 2:
		return protorange.Terminate
	case 3:
		return rwErr3
	}
	return rwErr4
}

type rwRun struct {
	root  protoreflect.Message
	res   rwResolver
	keys  map[string]int
	ctl   map[int]int
	cnt   int
	stack []string
	cb    int
	walk  []any
	vals  []any
	ok    bool
	why   string
}

func (r *rwRun) fail(format string, a ...any) {
	if r.ok {
		r.ok = false
		r.why = fmt.Sprintf("callback %d: ", r.cnt) + fmt.Sprintf(format, a...)
	}
}

func rwRealStepKey(s protopath.Step) string {
	switch s.Kind() {
	case protopath.RootStep:
		return "R"
	case protopath.FieldAccessStep:
		return rwStepKey("field", []int{int(s.FieldDescriptor().Number())})
	case protopath.UnknownAccessStep:
		return "u"
	case protopath.ListIndexStep:
		return rwStepKey("index", []int{s.ListIndex()})
	case protopath.MapIndexStep:
		return rwStepKey("key", rwKeyF(s.MapIndex()))
	case protopath.AnyExpandStep:
		return "a"
	}
	return "?"
}

// apply computes the value a step leads to from the value before it, with the plain reflection API.
func (r *rwRun) apply(s protopath.Step, prev protoreflect.Value) (v protoreflect.Value, ok bool) {
	defer func() {
		if recover() != nil {
			ok = false
		}
	}()
	switch s.Kind() {
	case protopath.FieldAccessStep:
		m, fd := prev.Message(), s.FieldDescriptor()
		if !m.Has(fd) {
			return v, false
		}
		return m.Get(fd), true
	case protopath.UnknownAccessStep:
		return protoreflect.ValueOfBytes(prev.Message().GetUnknown()), true
	case protopath.ListIndexStep:
		return prev.List().Get(s.ListIndex()), true
	case protopath.MapIndexStep:
		if !prev.Map().Has(s.MapIndex()) {
			return v, false
		}
		return prev.Map().Get(s.MapIndex()), true
	case protopath.AnyExpandStep:
		m2 := rwResolveAny(prev.Message(), r.res)
		if m2 == nil || m2.Descriptor().FullName() != s.MessageDescriptor().FullName() {
			return v, false
		}
		return protoreflect.ValueOfMessage(m2), true
	}
	return v, false
}

// code of the value of the step that was just pushed
func (r *rwRun) valueCode(p protopath.Values) (code int) {
	defer func() {
		if recover() != nil {
			code = -9
		}
	}()
	last := p.Index(-1)
	msgKids := func(m protoreflect.Message) int {
		if rwResolveAny(m, r.res) != nil {
			return 1
		}
		n := 0
		m.Range(func(protoreflect.FieldDescriptor, protoreflect.Value) bool { n++; return true })
		if len(m.GetUnknown()) > 0 {
			n++
		}
		return n
	}
	switch last.Step.Kind() {
	case protopath.RootStep, protopath.AnyExpandStep:
		return msgKids(last.Value.Message())
	case protopath.UnknownAccessStep:
		return len(last.Value.Bytes())
	case protopath.FieldAccessStep:
		fd := last.Step.FieldDescriptor()
		switch {
		case fd.IsMap():
			return last.Value.Map().Len()
		case fd.IsList():
			return last.Value.List().Len()
		case fd.Message() != nil:
			return msgKids(last.Value.Message())
		}
		return rwLeafCode(last.Value)
	case protopath.ListIndexStep:
		if p.Index(-2).Step.FieldDescriptor().Message() != nil {
			return msgKids(last.Value.Message())
		}
		return rwLeafCode(last.Value)
	case protopath.MapIndexStep:
		if p.Index(-2).Step.FieldDescriptor().MapValue().Message() != nil {
			return msgKids(last.Value.Message())
		}
		return rwLeafCode(last.Value)
	}
	return -8
}

func (r *rwRun) callback(push bool) func(protopath.Values) error {
	return func(p protopath.Values) error {
		r.cnt++
		if len(p.Path) != len(p.Values) || len(p.Path) == 0 {
			r.fail("path/values lengths %d/%d", len(p.Path), len(p.Values))
			return rwCode(r.ctl[r.cnt])
		}
		// the path is the stack of open steps
		parts := make([]string, len(p.Path))
		for i, s := range p.Path {
			parts[i] = rwRealStepKey(s)
		}
		key := strings.Join(parts, "/")
		if r.cb != 0 {
			// with one kind of callback the stack of open steps cannot be mirrored here
		} else if push {
			parent := ""
			if len(r.stack) > 0 {
				parent = r.stack[len(r.stack)-1] + "/"
			}
			if key != parent+parts[len(parts)-1] || len(parts) != len(r.stack)+1 {
				r.fail("push of %q while %q is open", key, parent)
			}
			r.stack = append(r.stack, key)
		} else {
			if len(r.stack) == 0 || r.stack[len(r.stack)-1] != key {
				r.fail("pop of %q does not match the open step", key)
			}
			if len(r.stack) > 0 {
				r.stack = r.stack[:len(r.stack)-1]
			}
		}
		// every value is its step applied to the value before it
		if p.Path[0].Kind() != protopath.RootStep || p.Path[0].MessageDescriptor() != r.root.Descriptor() || p.Values[0].Message() != r.root {
			r.fail("root step")
		}
		for i := 1; i < len(p.Path); i++ {
			want, ok := r.apply(p.Path[i], p.Values[i-1])
			if !ok || !want.Equal(p.Values[i]) {
				r.fail("value %d of %q is not its step applied to its parent", i, key)
			}
		}
		id := r.keys[key]
		if id == 0 {
			id = 99999
		}
		if push {
			r.walk = append(r.walk, id)
			r.vals = append(r.vals, r.valueCode(p))
		} else {
			r.walk = append(r.walk, -id)
		}
		return rwCode(r.ctl[r.cnt])
	}
}

var rwTypes = map[string]func() proto.Message{
	"test.TestAllTypes":                func() proto.Message { return new(testpb.TestAllTypes) },
	"test.TestAllExtensions":           func() proto.Message { return new(testpb.TestAllExtensions) },
	"test3.TestAllTypes":               func() proto.Message { return new(test3pb.TestAllTypes) },
	"testeditions.TestAllTypes":        func() proto.Message { return new(testeditionspb.TestAllTypes) },
	"testeditions_opaque.TestAllTypes": func() proto.Message { return new(testeditionsopaquepb.TestAllTypes) },
	"textpb2.KnownTypes":               func() proto.Message { return new(textpb2.KnownTypes) },
	"news.Article":                     func() proto.Message { return new(newspb.Article) },
}
var rwTypeNames = []string{"rw.N", "rw.N", "rw.N", "test.TestAllTypes", "test.TestAllExtensions", "test3.TestAllTypes", "testeditions.TestAllTypes",
	"testeditions_opaque.TestAllTypes", "textpb2.KnownTypes", "news.Article"}

// rwNew returns an empty message of the named type and the resolver its traversal uses (nil = the global registry).
func rwNew(typ string) (protoreflect.Message, rwResolver, rwResolver) {
	if typ == "rw.N" {
		env := rwSchema()
		return dynamicpb.NewMessage(env.n), env.types, env.types
	}
	mk := rwTypes[typ]
	if mk == nil {
		panic("harness: unknown type " + typ)
	}
	return mk().ProtoReflect(), nil, protoregistry.GlobalTypes
}

func rwExec(c core.Case) core.Case {
	out := core.Case{}
	var root protoreflect.Message
	var tree []rwNode
	var optRes, res rwResolver
	if _, ok := c["tree"]; ok {
		tree = rwTreeOf(c["tree"])
		root = rwBuild(tree)
		optRes, res = rwSchema().types, rwSchema().types
		// the message that was built must be the message the tree describes
		if back := rwProject(root, res); len(back) != len(tree) {
			panic(fmt.Sprintf("harness: built message has %d steps, tree has %d", len(back), len(tree)))
		}
	} else {
		root, optRes, res = rwNew(core.Str(c["typ"]))
		if err := (proto.UnmarshalOptions{AllowPartial: true, Resolver: res}).Unmarshal(core.Bytes(c["b"]), root.Interface()); err != nil {
			panic("harness: cannot decode the case's message: " + err.Error())
		}
		tree = rwProject(root, res)
		tc := make([]any, len(tree))
		for i, n := range tree {
			tc[i] = n.toCase()
		}
		out["tree"] = tc
	}
	run := &rwRun{root: root, res: res, keys: rwTreeKeys(tree), ctl: map[int]int{}, ok: true, cb: core.Int(c["cb"])}
	for _, x := range core.List(c["ctl"]) {
		kc := core.List(x)
		run.ctl[core.Int(kc[0])] = core.Int(kc[1])
	}
	opts := protorange.Options{Stable: core.Int(c["stable"]) == 1}
	if optRes != nil {
		opts.Resolver = optRes
	}
	var err error
	switch run.cb {
	case 0:
		err = opts.Range(root, run.callback(true), run.callback(false))
	case 1:
		if optRes == nil && !opts.Stable {
			err = protorange.Range(root, run.callback(true))
		} else {
			err = opts.Range(root, run.callback(true), nil)
		}
	default:
		err = opts.Range(root, nil, run.callback(false))
	}
	ret := 9
	switch err {
	case nil:
		ret = 0
	case protorange.Break:
		ret = 1
	case protorange.Terminate:
		ret = 2
	case rwErr3:
		ret = 3
	case rwErr4:
		ret = 4
	}
	if len(run.stack) != 0 {
		run.fail("steps left open")
	}
	ids := make([]int, len(run.walk))
	for i, x := range run.walk {
		ids[i] = x.(int)
		if ids[i] < 0 {
			ids[i] = -ids[i]
		}
	}
	sort.Ints(ids)
	var uniq []any
	for i, x := range ids {
		if i == 0 || ids[i-1] != x {
			uniq = append(uniq, x)
		}
	}
	if uniq == nil {
		uniq = []any{}
	}
	out["ids"] = uniq
	if run.walk == nil {
		run.walk = []any{}
	}
	if run.vals == nil {
		run.vals = []any{}
	}
	out["walk"], out["vals"], out["ret"], out["valid"] = run.walk, run.vals, ret, 1
	out["npush"], out["nev"] = len(run.vals), len(run.walk)
	out["ok"] = 0
	if run.ok {
		out["ok"] = 1
	} else {
		out["why"] = run.why
	}
	return out
}

// ---------------------------------------------------------------------------- generator: random messages of several types
type rwFiller struct {
	r      *rand.Rand
	budget int
	res    rwResolver
}

var rwStrings = []string{"", "a", "aa", "b", "10", "2", "x y", "é", "zz世"}

func (f *rwFiller) scalar(fd protoreflect.FieldDescriptor, forKey bool) protoreflect.Value {
	r := f.r
	small := []int64{0, 1, 2, 10, -1, 100, 7, 1 << 19, 1<<20 + 5, -77}
	n := small[r.IntN(len(small))]
	if !forKey && r.IntN(4) == 0 {
		n = r.Int64() >> uint(r.IntN(60))
	}
	switch fd.Kind() {
	case protoreflect.BoolKind:
		return protoreflect.ValueOfBool(r.IntN(2) == 0)
	case protoreflect.Int32Kind, protoreflect.Sint32Kind, protoreflect.Sfixed32Kind:
		return protoreflect.ValueOfInt32(int32(n))
	case protoreflect.Int64Kind, protoreflect.Sint64Kind, protoreflect.Sfixed64Kind:
		return protoreflect.ValueOfInt64(n)
	case protoreflect.Uint32Kind, protoreflect.Fixed32Kind:
		if forKey && n < 0 {
			n = -n
		}
		return protoreflect.ValueOfUint32(uint32(n))
	case protoreflect.Uint64Kind, protoreflect.Fixed64Kind:
		if forKey && n < 0 {
			n = -n
		}
		return protoreflect.ValueOfUint64(uint64(n))
	case protoreflect.FloatKind:
		return protoreflect.ValueOfFloat32(float32(n) / 4)
	case protoreflect.DoubleKind:
		return protoreflect.ValueOfFloat64(float64(n) / 8)
	case protoreflect.StringKind:
		return protoreflect.ValueOfString(rwStrings[r.IntN(len(rwStrings))])
	case protoreflect.BytesKind:
		return protoreflect.ValueOfBytes([]byte(rwStrings[r.IntN(len(rwStrings))]))
	case protoreflect.EnumKind:
		vs := fd.Enum().Values()
		return protoreflect.ValueOfEnum(vs.Get(r.IntN(vs.Len())).Number())
	}
	panic("harness: scalar kind")
}

func (f *rwFiller) any(m protoreflect.Message, depth int) {
	md := m.Descriptor()
	r := f.r
	var url string
	var val []byte
	switch r.IntN(6) {
	case 0: // not resolvable
		url, val = "example.com/no.such.Type", []byte{8, 1}
	case 1: // resolvable, body does not parse: traversed as a plain message
		url, val = "type.googleapis.com/rw.N", []byte{0x0a}
		if _, err := f.res.FindMessageByURL(url); err != nil {
			url = "type.googleapis.com/google.protobuf.Any"
		}
	case 2: // an Any inside the Any
		in := (&anypb.Any{}).ProtoReflect()
		if depth > 0 {
			f.any(in, depth-1)
		}
		url = "type.googleapis.com/google.protobuf.Any"
		val, _ = proto.MarshalOptions{AllowPartial: true}.Marshal(in.Interface())
	default:
		var body protoreflect.Message
		if _, err := f.res.FindMessageByURL("x/rw.N"); err == nil {
			body = dynamicpb.NewMessage(rwSchema().n)
		} else if r.IntN(2) == 0 {
			body = new(test3pb.TestAllTypes).ProtoReflect()
		} else {
			body = new(testpb.TestAllTypes_NestedMessage).ProtoReflect()
		}
		if depth > 0 {
			f.message(body, depth-1)
		}
		url = "type.googleapis.com/" + string(body.Descriptor().FullName())
		val, _ = proto.MarshalOptions{AllowPartial: true}.Marshal(body.Interface())
	}
	if url != "" {
		m.Set(md.Fields().ByNumber(1), protoreflect.ValueOfString(url))
	}
	if len(val) > 0 {
		m.Set(md.Fields().ByNumber(2), protoreflect.ValueOfBytes(val))
	}
	if r.IntN(8) == 0 {
		m.SetUnknown([]byte{0xc0, 0x3e, 0x01})
	}
}

func (f *rwFiller) sub(m protoreflect.Message, depth int) {
	if m.Descriptor().FullName() == "google.protobuf.Any" {
		f.any(m, depth)
		return
	}
	if depth > 0 {
		f.message(m, depth-1)
	}
}

func (f *rwFiller) field(m protoreflect.Message, fd protoreflect.FieldDescriptor, depth int) {
	r := f.r
	if f.budget <= 0 {
		return
	}
	f.budget--
	switch {
	case fd.IsMap():
		mp := m.Mutable(fd).Map()
		for n := 1 + r.IntN(3); n > 0; n-- {
			k := f.scalar(fd.MapKey(), true).MapKey()
			if fd.MapValue().Message() != nil {
				v := mp.NewValue()
				f.sub(v.Message(), depth)
				mp.Set(k, v)
			} else {
				mp.Set(k, f.scalar(fd.MapValue(), false))
			}
			f.budget--
		}
	case fd.IsList():
		l := m.Mutable(fd).List()
		for n := 1 + r.IntN(3); n > 0; n-- {
			if fd.Message() != nil {
				v := l.NewElement()
				f.sub(v.Message(), depth)
				l.Append(v)
			} else {
				l.Append(f.scalar(fd, false))
			}
			f.budget--
		}
	case fd.Message() != nil:
		if fd.IsWeak() {
			return
		}
		v := m.NewField(fd)
		f.sub(v.Message(), depth)
		m.Set(fd, v)
	default:
		m.Set(fd, f.scalar(fd, false))
	}
}

func (f *rwFiller) message(m protoreflect.Message, depth int) {
	r := f.r
	fds := m.Descriptor().Fields()
	density := 1 + r.IntN(8)
	for i := 0; i < fds.Len(); i++ {
		if r.IntN(fds.Len()) < density+3 && r.IntN(3) != 0 {
			f.field(m, fds.Get(i), depth)
		}
	}
	if m.Descriptor().ExtensionRanges().Len() > 0 {
		var xts []protoreflect.ExtensionType
		type ranger interface {
			RangeExtensionsByMessage(protoreflect.FullName, func(protoreflect.ExtensionType) bool)
		}
		if rg, ok := f.res.(ranger); ok {
			rg.RangeExtensionsByMessage(m.Descriptor().FullName(), func(xt protoreflect.ExtensionType) bool {
				xts = append(xts, xt)
				return true
			})
		}
		sort.Slice(xts, func(a, b int) bool { return xts[a].TypeDescriptor().Number() < xts[b].TypeDescriptor().Number() })
		for _, xt := range xts {
			if r.IntN(len(xts)+2) < 3 {
				f.field(m, xt.TypeDescriptor(), depth)
			}
		}
	}
	if r.IntN(5) == 0 {
		var u []byte
		for n := 1 + r.IntN(3); n > 0; n-- {
			u = append(u, 0xc0, 0x3e, byte(r.IntN(100)))
		}
		m.SetUnknown(u)
	}
}

func rwGen(r *rand.Rand, n int, emit func(core.Case)) {
	for i := 0; i < n; i++ {
		typ := rwTypeNames[r.IntN(len(rwTypeNames))]
		m, _, res := rwNew(typ)
		f := &rwFiller{r: r, budget: 4 + r.IntN(40), res: res}
		if m.Descriptor().FullName() == "google.protobuf.Any" {
			f.any(m, 2)
		} else {
			f.message(m, 1+r.IntN(3))
		}
		b, err := proto.MarshalOptions{AllowPartial: true}.Marshal(m.Interface())
		if err != nil {
			panic(err)
		}
		// re-read to learn the number of steps (the case carries only the bytes)
		m2, _, _ := rwNew(typ)
		if err := (proto.UnmarshalOptions{AllowPartial: true, Resolver: res}).Unmarshal(b, m2.Interface()); err != nil {
			panic(err)
		}
		steps := len(rwProject(m2, res))
		ctl := []any{}
		switch r.IntN(6) {
		case 0:
		case 1, 2, 3:
			ctl = append(ctl, []any{1 + r.IntN(2*steps), 1 + r.IntN(3)})
		default:
			k1 := 1 + r.IntN(2*steps)
			k2 := k1 + 1 + r.IntN(2*steps)
			if r.IntN(2) == 0 {
				k2 = k1 + 1 + r.IntN(2) // while the first value unwinds
			}
			ctl = append(ctl, []any{k1, 1 + r.IntN(3)}, []any{k2, 1 + r.IntN(4)})
		}
		stable, cb := 1, 0
		if r.IntN(3) == 0 {
			stable = 0
		}
		if r.IntN(5) == 0 {
			cb = 1 + r.IntN(2)
			if stable == 0 {
				ctl = []any{} // only order-independent facts can be checked: no control values
			}
		}
		emit(core.Case{"typ": typ, "b": core.B(b), "ctl": ctl, "stable": stable, "cb": cb})
	}
}
