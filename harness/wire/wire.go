package wire

import (
	"errors"
	"io"
	"math/rand/v2"

	"google.golang.org/protobuf/encoding/protowire"
	"google.golang.org/protobuf/internal/verifh/core"
)

// Module "wire": protowire primitives (C01) and the field recogniser (C02).
//
// Encoding cases  {op, v | num, wt | p}  ->  out {enc, size, dec, dn, pre, sfx, ...}
// Parsing cases   {op: cfield|ctag|cvalue|cgroup|cvarint|cbytes|cfixed32|cfixed64|nest, b, ...} -> out {n, ...}
func init() {
	core.Register(&core.Module{Name: "wire", Exec: wireExec, Gen: wireGen})
}

var wirePrefixes = [][]byte{nil, {}, {0xff}, {1, 2, 3, 0x80}, make([]byte, 0, 64), append(make([]byte, 0, 3), 9, 9, 9)}
var wireSuffixes = [][]byte{{0}, {0x80}, {0xff, 0xff, 0xff, 0xff, 0xff, 0xff, 0xff, 0xff, 0xff, 0xff, 0xff}, {1, 2, 3}}

func beq(a, b []byte) bool { return string(a) == string(b) }

// exact returns a copy of b whose capacity equals its length, so that any reslicing beyond the
// input panics instead of silently reading the allocator's slack.
func exact(b []byte) []byte {
	c := make([]byte, len(b))
	copy(c, b)
	return c[:len(b):len(b)]
}

func errName(n int) string {
	err := protowire.ParseError(n)
	switch {
	case err == nil:
		return ""
	case errors.Is(err, io.ErrUnexpectedEOF):
		return "unexpected EOF"
	default:
		return stripProto(err.Error())
	}
}

// stripProto removes the "proto: " prefix, whose separator is deliberately unstable (detrand).
func stripProto(s string) string {
	if len(s) >= 6 && s[:6] == "proto:" {
		s = s[6:]
		for len(s) > 0 && (s[0] == ' ' || s[0] == 0xc2 || s[0] == 0xa0) {
			s = s[1:]
		}
	}
	return s
}

func wireExec(c core.Case) core.Case {
	op := core.Str(c["op"])
	out := core.Case{}
	// appendAll checks Append(prefix, x) == prefix ++ enc for several prefixes/capacities
	appendAll := func(enc []byte, app func(b []byte) []byte) bool {
		ok := true
		for _, p := range wirePrefixes {
			pc := append(p[:0:0], p...)
			if p != nil && cap(p) > len(p) {
				pc = make([]byte, len(p), cap(p))
				copy(pc, p)
			}
			got := app(pc)
			if !beq(got, append(append([]byte{}, p...), enc...)) {
				ok = false
			}
		}
		return ok
	}
	switch op {
	case "varint":
		v := core.U64(c["v"])
		enc := protowire.AppendVarint(nil, v)
		out["enc"] = core.B(enc)
		out["size"] = protowire.SizeVarint(v)
		d, n := protowire.ConsumeVarint(exact(enc))
		out["dec"], out["dn"] = core.FromU64(d), n
		out["pre"] = appendAll(enc, func(b []byte) []byte { return protowire.AppendVarint(b, v) })
		sfx := true
		for _, s := range wireSuffixes {
			d2, n2 := protowire.ConsumeVarint(append(append([]byte{}, enc...), s...))
			sfx = sfx && d2 == v && n2 == len(enc)
		}
		out["sfx"] = sfx
	case "zigzag64":
		v := int64(core.U64(c["v"]))
		zz := protowire.EncodeZigZag(v)
		out["zz"] = core.FromU64(zz)
		out["back"] = core.FromU64(uint64(protowire.DecodeZigZag(zz)))
		out["undo"] = core.FromU64(protowire.EncodeZigZag(protowire.DecodeZigZag(uint64(v))))
		out["enc"] = core.B(protowire.AppendVarint(nil, zz))
	case "zigzag32":
		v := int32(uint32(core.U64(c["v"])))
		zz := protowire.EncodeZigZag(int64(v))
		out["zz"] = core.FromU64(zz)
		out["back"] = core.FromU32(uint32(int32(protowire.DecodeZigZag(zz))))
		out["enc"] = core.B(protowire.AppendVarint(nil, zz))
	case "fixed64":
		v := core.U64(c["v"])
		enc := protowire.AppendFixed64(nil, v)
		out["enc"], out["size"] = core.B(enc), protowire.SizeFixed64()
		d, n := protowire.ConsumeFixed64(exact(enc))
		out["dec"], out["dn"] = core.FromU64(d), n
		out["pre"] = appendAll(enc, func(b []byte) []byte { return protowire.AppendFixed64(b, v) })
	case "fixed32":
		v := uint32(core.U64(c["v"]))
		enc := protowire.AppendFixed32(nil, v)
		out["enc"], out["size"] = core.B(enc), protowire.SizeFixed32()
		d, n := protowire.ConsumeFixed32(exact(enc))
		out["dec"], out["dn"] = core.FromU32(d), n
		out["pre"] = appendAll(enc, func(b []byte) []byte { return protowire.AppendFixed32(b, v) })
	case "bool":
		v := core.U64(c["v"])
		out["enc"] = core.B([]byte{byte(protowire.EncodeBool(v != 0))})
		out["dec"] = protowire.DecodeBool(v)
	case "tag":
		num, wt := protowire.Number(core.Int(c["num"])), protowire.Type(core.Int(c["wt"]))
		enc := protowire.AppendTag(nil, num, wt)
		out["enc"], out["size"] = core.B(enc), protowire.SizeTag(num)
		n2, t2, n := protowire.ConsumeTag(exact(enc))
		out["dnum"], out["dwt"], out["dn"] = int(n2), int(t2), n
		n3, t3 := protowire.DecodeTag(protowire.EncodeTag(num, wt))
		out["codec"] = n3 == num && t3 == wt
		out["pre"] = appendAll(enc, func(b []byte) []byte { return protowire.AppendTag(b, num, wt) })
	case "bytes":
		p := core.Bytes(c["p"])
		enc := protowire.AppendBytes(nil, p)
		out["enc"], out["size"] = core.B(enc), protowire.SizeBytes(len(p))
		d, n := protowire.ConsumeBytes(exact(enc))
		out["dec"], out["dn"] = core.B(d), n
		encS := protowire.AppendString(nil, string(p))
		ds, ns := protowire.ConsumeString(exact(encS))
		out["str"] = beq(encS, enc) && ds == string(p) && ns == n
		out["pre"] = appendAll(enc, func(b []byte) []byte { return protowire.AppendBytes(b, p) })
		sfx := true
		for _, s := range wireSuffixes {
			d2, n2 := protowire.ConsumeBytes(append(append([]byte{}, enc...), s...))
			sfx = sfx && beq(d2, p) && n2 == len(enc)
		}
		out["sfx"] = sfx
	case "group":
		num := protowire.Number(core.Int(c["num"]))
		p := core.Bytes(c["p"])
		enc := protowire.AppendGroup(nil, num, p)
		out["enc"], out["size"] = core.B(enc), protowire.SizeGroup(num, len(p))
		d, n := protowire.ConsumeGroup(num, exact(enc))
		out["dec"], out["dn"] = core.B(d), n
		out["pre"] = appendAll(enc, func(b []byte) []byte { return protowire.AppendGroup(b, num, p) })
	// ---- parsing of arbitrary byte strings
	case "cfield", "ctag", "cvalue", "cgroup", "cvarint", "cbytes", "cfixed32", "cfixed64":
		b := exact(core.Bytes(c["b"]))
		run := func(b []byte) (n, num, wt int, val []byte) {
			switch op {
			case "cfield":
				a, t, n := protowire.ConsumeField(b)
				return n, int(a), int(t), nil
			case "ctag":
				a, t, n := protowire.ConsumeTag(b)
				return n, int(a), int(t), nil
			case "cvalue":
				return protowire.ConsumeFieldValue(protowire.Number(core.Int(c["num"])), protowire.Type(core.Int(c["wt"])), b), 0, 0, nil
			case "cgroup":
				v, n := protowire.ConsumeGroup(protowire.Number(core.Int(c["num"])), b)
				return n, 0, 0, v
			case "cvarint":
				v, n := protowire.ConsumeVarint(b)
				return n, 0, 0, core.Bytes(core.FromU64(v))
			case "cbytes":
				v, n := protowire.ConsumeBytes(b)
				return n, 0, 0, v
			case "cfixed32":
				v, n := protowire.ConsumeFixed32(b)
				return n, 0, 0, core.Bytes(core.FromU32(v))
			default:
				v, n := protowire.ConsumeFixed64(b)
				return n, 0, 0, core.Bytes(core.FromU64(v))
			}
		}
		n, num, wt, val := run(b)
		out["n"], out["err"] = n, errName(n)
		if op == "cfield" || op == "ctag" {
			out["num"], out["wt"] = num, wt
		}
		if op == "cgroup" || op == "cvarint" || op == "cbytes" || op == "cfixed32" || op == "cfixed64" {
			if n < 0 {
				val = nil
			}
			out["val"] = core.B(val)
		}
		out["bounded"] = n <= len(b)
		// a successful parse must not depend on what follows the field
		stable := true
		if n >= 0 && n <= len(b) {
			for _, s := range wireSuffixes {
				n2, num2, wt2, _ := run(append(append([]byte{}, b[:n]...), s...))
				stable = stable && n2 == n && num2 == num && wt2 == wt
			}
		}
		out["stable"] = stable
	case "nest": // d start-group tags of field 1 followed by d end-group tags
		d := core.Int(c["d"])
		b := make([]byte, 0, 2*d)
		for i := 0; i < d; i++ {
			b = append(b, 0x0b)
		}
		for i := 0; i < d; i++ {
			b = append(b, 0x0c)
		}
		_, _, n := protowire.ConsumeField(exact(b))
		out["ok"] = n == len(b)
		out["n"] = n
		if n > 0 {
			out["n"] = 0 // lengths beyond the tour's interest; ok carries the verdict
		}
		out["err"] = errName(n)
	default:
		panic("harness: unknown wire op " + op)
	}
	return out
}

func randU64(r *rand.Rand) uint64 {
	// uniform over bit lengths, then uniform within
	n := r.IntN(65)
	if n == 0 {
		return 0
	}
	v := r.Uint64()
	if n < 64 {
		v &= (1 << n) - 1
		v |= 1 << (n - 1)
	}
	switch r.IntN(8) {
	case 0:
		return ^v
	case 1:
		return v - 1
	}
	return v
}

func randBytes(r *rand.Rand, max int) []byte {
	b := make([]byte, r.IntN(max+1))
	for i := range b {
		switch r.IntN(4) {
		case 0:
			b[i] = []byte{0, 1, 0x7f, 0x80, 0xff, 0x0b, 0x0c, 0x08, 0x0a}[r.IntN(9)]
		default:
			b[i] = byte(r.Uint32())
		}
	}
	return b
}

// randField builds a structurally valid field (possibly nested groups) for mutation.
func randField(r *rand.Rand, depth int) []byte {
	num := protowire.Number(1 + r.IntN(20))
	if r.IntN(6) == 0 {
		num = protowire.Number(1 + r.IntN(1<<29-1))
	}
	var b []byte
	switch r.IntN(6) {
	case 0:
		b = protowire.AppendTag(b, num, protowire.VarintType)
		b = protowire.AppendVarint(b, randU64(r))
	case 1:
		b = protowire.AppendTag(b, num, protowire.Fixed32Type)
		b = protowire.AppendFixed32(b, r.Uint32())
	case 2:
		b = protowire.AppendTag(b, num, protowire.Fixed64Type)
		b = protowire.AppendFixed64(b, r.Uint64())
	case 3:
		b = protowire.AppendTag(b, num, protowire.BytesType)
		b = protowire.AppendBytes(b, randBytes(r, 12))
	default:
		b = protowire.AppendTag(b, num, protowire.StartGroupType)
		if depth > 0 {
			for k := r.IntN(3); k > 0; k-- {
				b = append(b, randField(r, depth-1)...)
			}
		}
		b = protowire.AppendTag(b, num, protowire.EndGroupType)
	}
	return b
}

func mutate(r *rand.Rand, b []byte) []byte {
	b = append([]byte{}, b...)
	if len(b) == 0 {
		return b
	}
	switch r.IntN(8) {
	case 0: // truncate
		return b[:r.IntN(len(b))]
	case 1: // flip wire type of first tag
		b[0] = b[0]&^7 | byte(r.IntN(8))
	case 2: // overlong varint
		i := r.IntN(len(b))
		ins := make([]byte, 1+r.IntN(11))
		for k := range ins {
			ins[k] = 0x80 | byte(r.IntN(128))
		}
		b = append(b[:i], append(ins, b[i:]...)...)
	case 3: // corrupt a byte
		b[r.IntN(len(b))] = byte(r.Uint32())
	case 4: // bogus length / extra byte
		i := r.IntN(len(b))
		b = append(b[:i], append([]byte{byte(r.IntN(256))}, b[i:]...)...)
	case 5: // drop a byte
		i := r.IntN(len(b))
		b = append(b[:i], b[i+1:]...)
	case 6: // make a continuation non-minimal: set high bit and append zero
		i := r.IntN(len(b))
		if b[i] < 0x80 {
			b = append(b[:i], append([]byte{b[i] | 0x80, 0}, b[i+1:]...)...)
		}
	case 7: // a length-delimited field announcing a boundary length, in front
		f := protowire.AppendVarint([]byte{byte(1+r.IntN(15))<<3 | 2}, boundaryLengths[r.IntN(len(boundaryLengths))])
		b = append(f, b...)
	}
	return b
}

// boundaryLengths: declared lengths of a length-delimited value around every width a careless bounds check can have
// (int32, uint32, int64 sign bit, uint64), each as a shortest varint and followed by 0..3 body bytes.
var boundaryLengths = []uint64{1<<31 - 1, 1 << 31, 1<<32 - 1, 1 << 32, 1<<62 + 1, 1<<63 - 1, 1 << 63, 1<<63 + 1, 1<<64 - 1, 1<<64 - 9}

// lengthSweep is emitted at the start of every generated run, whatever the seed: every boundary length through every
// entry point that consumes a length-delimited value (bare, as a field value, as a whole field, inside a group).
func lengthSweep(emit func(core.Case)) {
	for _, l := range boundaryLengths {
		lv := protowire.AppendVarint(nil, l)
		for body := 0; body <= 3; body += 3 {
			v := append(append([]byte{}, lv...), make([]byte, body)...)
			emit(core.Case{"op": "cbytes", "b": core.B(v)})
			emit(core.Case{"op": "cvalue", "num": 1, "wt": 2, "b": core.B(v)})
			emit(core.Case{"op": "cfield", "b": core.B(append([]byte{0x0a}, v...))})
			emit(core.Case{"op": "cgroup", "num": 1, "b": core.B(append(append([]byte{0x12}, v...), 0x0c))})
		}
	}
}

func wireGen(r *rand.Rand, n int, emit func(core.Case)) {
	lengthSweep(emit)
	for i := 0; i < n; i++ {
		switch r.IntN(16) {
		case 0, 1:
			emit(core.Case{"op": "varint", "v": core.FromU64(randU64(r))})
		case 2:
			emit(core.Case{"op": "zigzag64", "v": core.FromU64(randU64(r))})
		case 3:
			emit(core.Case{"op": "zigzag32", "v": core.FromU32(uint32(randU64(r)))})
		case 4:
			emit(core.Case{"op": "fixed64", "v": core.FromU64(randU64(r))})
		case 5:
			emit(core.Case{"op": "fixed32", "v": core.FromU32(uint32(randU64(r)))})
		case 6:
			num := 1 + r.IntN(1<<29-1)
			if r.IntN(2) == 0 {
				num = 1 + r.IntN(1<<uint(1+r.IntN(29)))
				if num > 1<<29-1 {
					num = 1<<29 - 1
				}
			}
			emit(core.Case{"op": "tag", "num": num, "wt": r.IntN(8)})
		case 7:
			emit(core.Case{"op": "bytes", "p": core.B(randBytes(r, 200))})
		case 8:
			var body []byte
			for k := r.IntN(4); k > 0; k-- {
				body = append(body, randField(r, 2)...)
			}
			emit(core.Case{"op": "group", "num": 1 + r.IntN(1<<uint(1+r.IntN(29))-1), "p": core.B(body)})
		default:
			b := randField(r, 3)
			for k := r.IntN(3); k > 0; k-- {
				b = mutate(r, b)
			}
			if len(b) > 64 {
				b = b[:64]
			}
			ops := []string{"cfield", "cfield", "cfield", "ctag", "cvarint", "cbytes", "cfixed32", "cfixed64"}
			op := ops[r.IntN(len(ops))]
			switch r.IntN(10) {
			case 0:
				emit(core.Case{"op": "cvalue", "num": 1 + r.IntN(20), "wt": r.IntN(8), "b": core.B(b)})
			case 1:
				emit(core.Case{"op": "cgroup", "num": 1 + r.IntN(20), "b": core.B(b)})
			default:
				emit(core.Case{"op": op, "b": core.B(b)})
			}
		}
	}
}
