// Package text holds the harness modules of the "text" family:
//
//	module "text"   (C25)  text-format string literals and EmitUnknown rendering
//	module "defval" (C39)  textual default values (defval.go)
package text

import (
	"fmt"
	"math/rand/v2"
	"reflect"
	"unicode/utf8"

	"google.golang.org/protobuf/encoding/prototext"
	"google.golang.org/protobuf/encoding/protowire"
	ptext "google.golang.org/protobuf/internal/encoding/text"
	testpb "google.golang.org/protobuf/internal/testprotos/test"
	"google.golang.org/protobuf/internal/verifh/core"
	"google.golang.org/protobuf/proto"
)

// Module "text".
//
//	{op: "str", b, lits[, pred0, pred1]} -> {enc0, enc1, back0, back1, ustr, pt0, pt1, pts0, ptext1, ascii1, ptascii1, dec, drift}
//	{op: "lit", s[, pred]}               -> {nopanic, ok, val, uok, uval, drift}
//	{op: "unk", b, mode, ascii, multi[, pred]} -> {done, nopanic, asciiok, text, items, drift}
//
// Keys named pred* carry what the specification *predicts* beyond what property C25 demands; a
// mismatch is reported in out.drift and never makes a case fail.
func init() {
	core.Register(&core.Module{Name: "text", Exec: textExec, Gen: textGen})
}

// errBytes marks "the real decoder rejected the input" where a byte array is expected (no byte is -1).
func errBytes() []any { return []any{float64(-1)} }

func printable(b []byte) bool {
	for _, c := range b {
		if c < 0x20 || c > 0x7e {
			return false
		}
	}
	return true
}

// encodeLiteral is the real encoder: internal/encoding/text Encoder.WriteString.
func encodeLiteral(b []byte, ascii bool) []byte {
	e, err := ptext.NewEncoder(nil, "", [2]byte{}, ascii)
	if err != nil {
		panic("harness: " + err.Error())
	}
	e.WriteString(string(b))
	return append([]byte(nil), e.Bytes()...)
}

// decodeValue is the real decoder: the literal text is given as the value of a field "s" and read
// token by token; the value must be a string scalar followed by the end of input.
func decodeValue(lit []byte) ([]byte, bool) {
	in := append([]byte("s:"), lit...)
	d := ptext.NewDecoder(in[:len(in):len(in)])
	tok, err := d.Read()
	if err != nil || tok.Kind() != ptext.Name {
		return nil, false
	}
	tok, err = d.Read()
	if err != nil {
		return nil, false
	}
	s, ok := tok.String()
	if !ok {
		return nil, false
	}
	tok, err = d.Read()
	if err != nil || tok.Kind() != ptext.EOF {
		return nil, false
	}
	return []byte(s), true
}

func bytesOrErr(b []byte, ok bool) []any {
	if !ok {
		return errBytes()
	}
	return core.B(b)
}

func nonNil(b []byte) []byte {
	if b == nil {
		return []byte{}
	}
	return b
}

// viaPrototext sends b through a bytes (or proto2 string) field of a real message.
func viaPrototext(b []byte, ascii, asString bool) (back []byte, ok bool, txt []byte) {
	m := &testpb.TestAllTypes{}
	if asString {
		m.OptionalString = proto.String(string(b))
	} else {
		m.OptionalBytes = nonNil(b)
	}
	txt, err := prototext.MarshalOptions{EmitASCII: ascii}.Marshal(m)
	if err != nil {
		return nil, false, txt
	}
	m2 := &testpb.TestAllTypes{}
	if err := prototext.Unmarshal(txt, m2); err != nil {
		return nil, false, txt
	}
	if asString {
		if m2.OptionalString == nil {
			return nil, false, txt
		}
		return []byte(*m2.OptionalString), true, txt
	}
	if m2.OptionalBytes == nil {
		return nil, false, txt
	}
	return m2.OptionalBytes, true, txt
}

type unkItem struct {
	D   int    `json:"d"`
	Num int    `json:"num"`
	K   string `json:"k"`
	V   []any  `json:"v"`
}

// parseRendered reads a rendering of unknown fields back with the real text decoder.
func parseRendered(txt []byte) (items []any, ok bool) {
	items = []any{}
	d := ptext.NewDecoder(txt)
	depth := 0
	for {
		tok, err := d.Read()
		if err != nil {
			return items, false
		}
		switch tok.Kind() {
		case ptext.EOF:
			return items, depth == 0
		case ptext.MessageClose:
			depth--
		case ptext.Name:
			if tok.NameKind() != ptext.FieldNumber {
				return items, false
			}
			num := int(tok.FieldNumber())
			v, err := d.Read()
			if err != nil {
				return items, false
			}
			switch v.Kind() {
			case ptext.MessageOpen:
				items = append(items, map[string]any{"d": depth, "num": num, "k": "m", "v": []any{}})
				depth++
			case ptext.Scalar:
				if s, ok := v.String(); ok {
					items = append(items, map[string]any{"d": depth, "num": num, "k": "s", "v": core.B([]byte(s))})
				} else if u, ok := v.Uint64(); ok {
					items = append(items, map[string]any{"d": depth, "num": num, "k": "u", "v": core.FromU64(u)})
				} else {
					return items, false
				}
			default:
				return items, false
			}
		default:
			return items, false
		}
	}
}

func textExec(c core.Case) core.Case {
	out := core.Case{}
	switch op := core.Str(c["op"]); op {
	case "str":
		b := core.Bytes(c["b"])
		enc0, enc1 := encodeLiteral(b, false), encodeLiteral(b, true)
		out["enc0"], out["enc1"] = core.B(enc0), core.B(enc1)
		out["back0"] = bytesOrErr(decodeValue(enc0))
		out["back1"] = bytesOrErr(decodeValue(enc1))
		out["ascii1"] = printable(enc1)
		if s, err := ptext.UnmarshalString(string(enc0)); err == nil {
			out["ustr"] = core.B([]byte(s))
		} else {
			out["ustr"] = errBytes()
		}
		p0, ok0, _ := viaPrototext(b, false, false)
		p1, ok1, txt1 := viaPrototext(b, true, false)
		ps, oks, _ := viaPrototext(b, false, true)
		out["pt0"], out["pt1"], out["pts0"] = bytesOrErr(p0, ok0), bytesOrErr(p1, ok1), bytesOrErr(ps, oks)
		out["ptext1"], out["ptascii1"] = core.B(txt1), printable(txt1)
		dec := []any{}
		for _, l := range core.List(c["lits"]) {
			dec = append(dec, bytesOrErr(decodeValue(core.Bytes(l))))
		}
		out["dec"] = dec
		drift := []any{}
		if p, ok := c["pred0"]; ok && !reflect.DeepEqual(core.Bytes(p), enc0) {
			drift = append(drift, "enc0")
		}
		if p, ok := c["pred1"]; ok && !reflect.DeepEqual(core.Bytes(p), enc1) {
			drift = append(drift, "enc1")
		}
		out["drift"] = drift
	case "lit":
		s := core.Bytes(c["s"])
		v, ok := decodeValue(s)
		out["ok"], out["val"] = ok, core.B(v)
		if u, err := ptext.UnmarshalString(string(s)); err == nil {
			out["uok"], out["uval"] = true, core.B([]byte(u))
		} else {
			out["uok"], out["uval"] = false, []any{}
		}
		out["nopanic"] = true
		drift := []any{}
		if p, has := c["pred"]; has && (core.Int(p) == 1) != ok {
			drift = append(drift, "ok")
		}
		out["drift"] = drift
	case "unk":
		b := core.Bytes(c["b"])
		opts := prototext.MarshalOptions{EmitUnknown: true, EmitASCII: core.Int(c["ascii"]) == 1, Multiline: core.Int(c["multi"]) == 1}
		format := core.Str(c["mode"]) == "format"
		render := func(m proto.Message) (txt []byte, panicked string) {
			defer func() {
				if r := recover(); r != nil {
					panicked = fmt.Sprint(r)
				}
			}()
			if format {
				return []byte(opts.Format(m)), ""
			}
			txt, err := opts.Marshal(m)
			if err != nil {
				return nil, "error: " + err.Error()
			}
			return txt, ""
		}
		// placement 1: the set is the unknown fields of the top-level message
		top := &testpb.TestAllTypes{}
		top.ProtoReflect().SetUnknown(append([]byte(nil), b...))
		txt, p1 := render(top)
		// placement 2: inside a singular, a repeated and a map-value submessage, next to known fields
		nested := func() *testpb.TestAllTypes_NestedMessage {
			n := &testpb.TestAllTypes_NestedMessage{A: proto.Int32(7)}
			n.ProtoReflect().SetUnknown(append([]byte(nil), b...))
			return n
		}
		deep := &testpb.TestAllTypes{
			OptionalNestedMessage:  nested(),
			RepeatedNestedMessage:  []*testpb.TestAllTypes_NestedMessage{nested(), nested()},
			MapStringNestedMessage: map[string]*testpb.TestAllTypes_NestedMessage{"k": nested()},
			OptionalBytes:          []byte{0xff, '"'},
		}
		deep.ProtoReflect().SetUnknown(append([]byte(nil), b...))
		txt2, p2 := render(deep)
		out["done"] = true
		out["nopanic"] = p1 == "" && p2 == ""
		if p1 != "" || p2 != "" {
			out["panicmsg"] = p1 + "|" + p2
		}
		out["text"] = core.B(txt)
		out["asciiok"] = printable(txt) && printable(txt2)
		items, ok := parseRendered(txt)
		out["items"], out["parsed"] = items, ok
		drift := []any{}
		if p, has := c["pred"]; has && p1 == "" {
			if !ok || !reflect.DeepEqual(core.Norm(items), core.Norm(p)) {
				drift = append(drift, "items")
			}
		}
		out["drift"] = drift
	default:
		panic("harness: unknown text op " + op)
	}
	return out
}

// ---------------------------------------------------------------------------------------- generators

var cornerBytes = []byte{0, 9, 10, 13, 31, ' ', '"', '\'', '\\', '0', '7', '8', 'a', 'f', 'n', 'x', 'u', 'U', '?', '#', 126, 127,
	128, 143, 144, 159, 160, 191, 192, 193, 194, 223, 224, 237, 239, 240, 244, 245, 255}

func randRune(r *rand.Rand) rune {
	switch r.IntN(8) {
	case 0:
		return rune(r.IntN(0x80))
	case 1:
		return rune(0x80 + r.IntN(0x20)) // C1
	case 2:
		return rune(0xa0 + r.IntN(0x760)) // up to U+7FF
	case 3:
		x := rune(0x800 + r.IntN(0xF800))
		if x >= 0xD800 && x <= 0xDFFF {
			x = 0xFFFD
		}
		return x
	case 4:
		return rune(0x10000 + r.IntN(0x100000))
	case 5:
		return []rune{0x7f, 0x80, 0x9f, 0xa0, 0x7ff, 0x800, 0xd7ff, 0xe000, 0xfffd, 0xffff, 0x10000, 0x10ffff, 0xfeff}[r.IntN(13)]
	default:
		return rune(0x20 + r.IntN(0x5f))
	}
}

func randString(r *rand.Rand, max int) []byte {
	var b []byte
	for n := r.IntN(max + 1); len(b) < n; {
		switch r.IntN(6) {
		case 0:
			b = append(b, cornerBytes[r.IntN(len(cornerBytes))])
		case 1:
			b = append(b, byte(r.Uint32()))
		case 2: // truncated or corrupted multi-byte sequence
			e := utf8.AppendRune(nil, randRune(r))
			if len(e) > 1 {
				if r.IntN(2) == 0 {
					e = e[:1+r.IntN(len(e)-1)]
				} else {
					e[1+r.IntN(len(e)-1)] = byte(r.Uint32())
				}
			}
			b = append(b, e...)
		default:
			b = utf8.AppendRune(b, randRune(r))
		}
	}
	return b
}

const hexDigits = "0123456789abcdefABCDEF"

func randHex(r *rand.Rand, n int) []byte {
	b := make([]byte, n)
	for i := range b {
		b[i] = hexDigits[r.IntN(len(hexDigits))]
	}
	return b
}

// randLiteral writes a string value in the text format by its own choice of escapes (it does not use
// the code under test), with occasional deliberate errors.
func randLiteral(r *rand.Rand) []byte {
	var s []byte
	for nlit := 1 + r.IntN(5)/4 + r.IntN(9)/8; nlit > 0; nlit-- {
		q := byte('"')
		if r.IntN(3) == 0 {
			q = '\''
		}
		s = append(s, q)
		for n := r.IntN(7); n > 0; n-- {
			switch r.IntN(14) {
			case 0:
				s = append(s, '\\', "abfnrtv\\'\"?"[r.IntN(11)])
			case 1:
				s = append(s, '\\')
				for k := 1 + r.IntN(3); k > 0; k-- {
					s = append(s, byte('0'+r.IntN(8)))
				}
			case 2:
				s = append(s, '\\', byte('0'+r.IntN(4)), byte('0'+r.IntN(8)), byte('0'+r.IntN(8)))
				if r.IntN(2) == 0 {
					s = append(s, byte('0'+r.IntN(10)))
				}
			case 3:
				s = append(s, '\\', 'x')
				s = append(s, randHex(r, r.IntN(4))...)
			case 4:
				s = append(s, '\\', 'u')
				s = append(s, randHex(r, 4)...)
			case 5: // surrogates, paired or not
				s = append(s, fmt.Sprintf("\\u%04x", 0xd800+r.IntN(0x400))...)
				switch r.IntN(4) {
				case 0:
				case 1:
					s = append(s, fmt.Sprintf("\\u%04x", 0xd800+r.IntN(0x400))...)
				default:
					s = append(s, fmt.Sprintf("\\u%04X", 0xdc00+r.IntN(0x400))...)
				}
			case 6:
				switch r.IntN(4) {
				case 0:
					s = append(s, fmt.Sprintf("\\U%08x", r.IntN(0x110000))...)
				case 1:
					s = append(s, fmt.Sprintf("\\U%08X", 0x10fff0+r.IntN(0x20))...)
				case 2:
					s = append(s, fmt.Sprintf("\\U%08x", 0xd7f0+r.IntN(0x820))...)
				default:
					s = append(s, '\\', 'U')
					s = append(s, randHex(r, 8)...)
				}
			case 7:
				s = utf8.AppendRune(s, randRune(r))
			case 8:
				s = append(s, cornerBytes[r.IntN(len(cornerBytes))])
			case 9:
				s = append(s, '\\', byte(0x20+r.IntN(0x5f)))
			default:
				c := byte(0x20 + r.IntN(0x5f))
				if c == '"' || c == '\'' || c == '\\' {
					c = 'z'
				}
				s = append(s, c)
			}
		}
		s = append(s, q)
		if nlit > 1 {
			switch r.IntN(4) {
			case 0:
				s = append(s, ' ')
			case 1:
				s = append(s, "\t\n "...)
			case 2:
				s = append(s, "# c\"'\n"...)
			}
		}
	}
	if r.IntN(4) == 0 && len(s) > 0 { // one mutation
		i := r.IntN(len(s))
		switch r.IntN(3) {
		case 0:
			s = append(s[:i], s[i+1:]...)
		case 1:
			s[i] = cornerBytes[r.IntN(len(cornerBytes))]
		default:
			s = append(s[:i], append([]byte{cornerBytes[r.IntN(len(cornerBytes))]}, s[i:]...)...)
		}
	}
	return s
}

func randVarintEnc(r *rand.Rand, v uint64) []byte {
	b := protowire.AppendVarint(nil, v)
	if r.IntN(4) == 0 && len(b) < 9 { // non-minimal form
		b[len(b)-1] |= 0x80
		for k := r.IntN(10 - len(b)); k > 0; k-- {
			b = append(b, 0x80)
		}
		b = append(b, 0)
	}
	return b
}

func randNum(r *rand.Rand) uint64 {
	switch r.IntN(6) {
	case 0:
		return uint64(1 + r.IntN(1<<29-1))
	case 1:
		return []uint64{15, 16, 2047, 2048, 1<<29 - 1, 1 << 29, 1<<31 - 1}[r.IntN(7)]
	default:
		return uint64(1 + r.IntN(20))
	}
}

func randU64(r *rand.Rand) uint64 {
	n := r.IntN(65)
	if n == 0 {
		return 0
	}
	v := r.Uint64()
	if n < 64 {
		v = v&(1<<n-1) | 1<<(n-1)
	}
	return v
}

// randUnknown builds a syntactically valid unknown-field set: complete fields, groups closed by the
// matching end tag, varints (values, lengths, tags) sometimes in non-minimal form.
func randUnknown(r *rand.Rand, depth, max int) []byte {
	var b []byte
	for k := r.IntN(max + 1); k > 0; k-- {
		num := randNum(r)
		tag := func(wt uint64) { b = append(b, randVarintEnc(r, num<<3|wt)...) }
		switch r.IntN(6) {
		case 0:
			tag(0)
			b = append(b, randVarintEnc(r, randU64(r))...)
		case 1:
			tag(5)
			b = protowire.AppendFixed32(b, r.Uint32()>>uint(r.IntN(32)))
		case 2:
			tag(1)
			b = protowire.AppendFixed64(b, randU64(r))
		case 3, 4:
			tag(2)
			var p []byte
			switch r.IntN(4) {
			case 0:
				p = randUnknown(r, 0, 2) // looks like a message
			case 1:
				p = randLiteral(r)
			default:
				p = randString(r, 12)
			}
			b = append(b, randVarintEnc(r, uint64(len(p)))...)
			b = append(b, p...)
		default:
			if depth <= 0 {
				tag(0)
				b = append(b, 1)
				break
			}
			tag(3)
			b = append(b, randUnknown(r, depth-1, 3)...)
			tag(4)
		}
	}
	return b
}

func textGen(r *rand.Rand, n int, emit func(core.Case)) {
	for i := 0; i < n; i++ {
		switch x := r.IntN(20); {
		case x < 9:
			emit(core.Case{"op": "str", "b": core.B(randString(r, 20)), "lits": []any{}})
		case x < 16:
			emit(core.Case{"op": "lit", "s": core.B(randLiteral(r))})
		default:
			mode := "marshal"
			if r.IntN(3) == 0 {
				mode = "format"
			}
			emit(core.Case{"op": "unk", "b": core.B(randUnknown(r, 3, 4)), "mode": mode, "ascii": r.IntN(2), "multi": r.IntN(2)})
		}
	}
}
