package text

import (
	"encoding/json"
	"fmt"
	"math"
	"math/rand/v2"
	"sync"

	"google.golang.org/protobuf/internal/encoding/defval"
	"google.golang.org/protobuf/internal/verifh/core"
	"google.golang.org/protobuf/proto"
	"google.golang.org/protobuf/reflect/protodesc"
	"google.golang.org/protobuf/reflect/protoreflect"
	"google.golang.org/protobuf/types/descriptorpb"
)

// Module "defval" (C39).
//
//	{op: "rt", kind, fmt: "desc"|"gotag", v, enum: [{n, v}...], idx, hs, str}
//	    -> {merr, str, backok, back, parsedok, parsed, has, d1, d2, s2same}
//	    str (in)  the text the specification writes for v (when hs = 1)
//	    str (out) the text the real defval.Marshal writes
//	    back      Unmarshal(Marshal(v)); parsed  Unmarshal(specification's text)
//	    d1        FieldDescriptor.Default after protodesc.NewFile of a file whose default_value is the text
//	    d2        ... after ToFileDescriptorProto and NewFile again          (fmt = "desc" only)
//	    x1, x2    the same for an extension field carrying the same default
//	{op: "sweep32", sign, ex, start, stride, count} -> {n, fails: [bits...]}   all mantissas start, start+stride, ... of one
//	    (sign, exponent ex) stratum of float32 through Marshal/Unmarshal in both formats ("exp" is the tour's expectation key)
//
// Values travel as little-endian byte arrays; NaN results are reported as the canonical quiet NaN
// (C39: "all NaNs equal").
func init() {
	core.Register(&core.Module{Name: "defval", Exec: defvalExec, Gen: defvalGen})
}

var kindOf = map[string]protoreflect.Kind{
	"bool": protoreflect.BoolKind, "enum": protoreflect.EnumKind,
	"int32": protoreflect.Int32Kind, "sint32": protoreflect.Sint32Kind, "sfixed32": protoreflect.Sfixed32Kind,
	"int64": protoreflect.Int64Kind, "sint64": protoreflect.Sint64Kind, "sfixed64": protoreflect.Sfixed64Kind,
	"uint32": protoreflect.Uint32Kind, "fixed32": protoreflect.Fixed32Kind,
	"uint64": protoreflect.Uint64Kind, "fixed64": protoreflect.Fixed64Kind,
	"float": protoreflect.FloatKind, "double": protoreflect.DoubleKind,
	"string": protoreflect.StringKind, "bytes": protoreflect.BytesKind,
}

var typeOf = map[string]descriptorpb.FieldDescriptorProto_Type{
	"bool": descriptorpb.FieldDescriptorProto_TYPE_BOOL, "enum": descriptorpb.FieldDescriptorProto_TYPE_ENUM,
	"int32": descriptorpb.FieldDescriptorProto_TYPE_INT32, "sint32": descriptorpb.FieldDescriptorProto_TYPE_SINT32,
	"sfixed32": descriptorpb.FieldDescriptorProto_TYPE_SFIXED32, "int64": descriptorpb.FieldDescriptorProto_TYPE_INT64,
	"sint64": descriptorpb.FieldDescriptorProto_TYPE_SINT64, "sfixed64": descriptorpb.FieldDescriptorProto_TYPE_SFIXED64,
	"uint32": descriptorpb.FieldDescriptorProto_TYPE_UINT32, "fixed32": descriptorpb.FieldDescriptorProto_TYPE_FIXED32,
	"uint64": descriptorpb.FieldDescriptorProto_TYPE_UINT64, "fixed64": descriptorpb.FieldDescriptorProto_TYPE_FIXED64,
	"float": descriptorpb.FieldDescriptorProto_TYPE_FLOAT, "double": descriptorpb.FieldDescriptorProto_TYPE_DOUBLE,
	"string": descriptorpb.FieldDescriptorProto_TYPE_STRING, "bytes": descriptorpb.FieldDescriptorProto_TYPE_BYTES,
}

func canon32(f float32) uint32 {
	if f != f {
		return 0x7fc00000
	}
	return math.Float32bits(f)
}

func canon64(f float64) uint64 {
	if f != f {
		return 0x7ff8000000000000
	}
	return math.Float64bits(f)
}

// toValue: byte array -> protoreflect.Value of the kind
func toValue(kind string, b []byte) protoreflect.Value {
	u := core.U64(core.B(b))
	switch kind {
	case "bool":
		return protoreflect.ValueOfBool(u != 0)
	case "enum":
		return protoreflect.ValueOfEnum(protoreflect.EnumNumber(int32(uint32(u))))
	case "int32", "sint32", "sfixed32":
		return protoreflect.ValueOfInt32(int32(uint32(u)))
	case "int64", "sint64", "sfixed64":
		return protoreflect.ValueOfInt64(int64(u))
	case "uint32", "fixed32":
		return protoreflect.ValueOfUint32(uint32(u))
	case "uint64", "fixed64":
		return protoreflect.ValueOfUint64(u)
	case "float":
		return protoreflect.ValueOfFloat32(math.Float32frombits(uint32(u)))
	case "double":
		return protoreflect.ValueOfFloat64(math.Float64frombits(u))
	case "string":
		return protoreflect.ValueOfString(string(b))
	case "bytes":
		return protoreflect.ValueOfBytes(append([]byte{}, b...))
	}
	panic("harness: unknown kind " + kind)
}

// fromValue: protoreflect.Value -> byte array (NaNs canonical)
func fromValue(kind string, v protoreflect.Value) []any {
	switch kind {
	case "bool":
		if v.Bool() {
			return []any{float64(1)}
		}
		return []any{float64(0)}
	case "enum":
		return core.FromU32(uint32(int32(v.Enum())))
	case "int32", "sint32", "sfixed32":
		return core.FromU32(uint32(int32(v.Int())))
	case "int64", "sint64", "sfixed64":
		return core.FromU64(uint64(v.Int()))
	case "uint32", "fixed32":
		return core.FromU32(uint32(v.Uint()))
	case "uint64", "fixed64":
		return core.FromU64(v.Uint())
	case "float":
		return core.FromU32(canon32(float32(v.Float())))
	case "double":
		return core.FromU64(canon64(v.Float()))
	case "string":
		return core.B([]byte(v.String()))
	case "bytes":
		return core.B(v.Bytes())
	}
	panic("harness: unknown kind " + kind)
}

type enumSpec struct {
	names []string
	nums  []int32
}

func parseEnum(v any) enumSpec {
	var e enumSpec
	for _, x := range core.List(v) {
		m := core.Map(x)
		e.names = append(e.names, string(core.Bytes(m["n"])))
		e.nums = append(e.nums, int32(uint32(core.U64(m["v"]))))
	}
	return e
}

// fileFor builds   syntax = "proto2"; enum E {...}  message M { optional <kind> f = 1 [default = def]; }
func fileFor(kind string, e enumSpec, def *string) *descriptorpb.FileDescriptorProto {
	fd := &descriptorpb.FileDescriptorProto{
		Name:    proto.String("verif/defval.proto"),
		Package: proto.String("verif.defval"),
		Syntax:  proto.String("proto2"),
	}
	f := &descriptorpb.FieldDescriptorProto{
		Name:         proto.String("f"),
		JsonName:     proto.String("f"),
		Number:       proto.Int32(1),
		Label:        descriptorpb.FieldDescriptorProto_LABEL_OPTIONAL.Enum(),
		Type:         typeOf[kind].Enum(),
		DefaultValue: def,
	}
	if kind == "enum" {
		ed := &descriptorpb.EnumDescriptorProto{Name: proto.String("E")}
		seen := map[int32]bool{}
		for i := range e.names {
			ed.Value = append(ed.Value, &descriptorpb.EnumValueDescriptorProto{Name: proto.String(e.names[i]), Number: proto.Int32(e.nums[i])})
			if seen[e.nums[i]] {
				ed.Options = &descriptorpb.EnumOptions{AllowAlias: proto.Bool(true)}
			}
			seen[e.nums[i]] = true
		}
		fd.EnumType = append(fd.EnumType, ed)
		f.TypeName = proto.String(".verif.defval.E")
	}
	// the same default on an extension field (resolved by a separate code path of protodesc)
	x := proto.Clone(f).(*descriptorpb.FieldDescriptorProto)
	x.Name, x.JsonName, x.Number, x.Extendee = proto.String("x"), nil, proto.Int32(100), proto.String(".verif.defval.M")
	fd.Extension = append(fd.Extension, x)
	fd.MessageType = append(fd.MessageType, &descriptorpb.DescriptorProto{
		Name:           proto.String("M"),
		Field:          []*descriptorpb.FieldDescriptorProto{f},
		ExtensionRange: []*descriptorpb.DescriptorProto_ExtensionRange{{Start: proto.Int32(100), End: proto.Int32(200)}},
	})
	return fd
}

var enumCache sync.Map // JSON of the enum spec -> protoreflect.EnumValueDescriptors

func enumValues(raw any, e enumSpec) protoreflect.EnumValueDescriptors {
	key, _ := json.Marshal(raw)
	if v, ok := enumCache.Load(string(key)); ok {
		return v.(protoreflect.EnumValueDescriptors)
	}
	file, err := protodesc.NewFile(fileFor("enum", e, nil), nil)
	if err != nil {
		panic("harness: cannot build enum: " + err.Error())
	}
	evs := file.Enums().Get(0).Values()
	enumCache.Store(string(key), evs)
	return evs
}

func defvalExec(c core.Case) core.Case {
	out := core.Case{}
	switch op := core.Str(c["op"]); op {
	case "rt":
		kind := core.Str(c["kind"])
		k, ok := kindOf[kind]
		if !ok {
			panic("harness: unknown kind " + kind)
		}
		format := defval.Descriptor
		if core.Str(c["fmt"]) == "gotag" {
			format = defval.GoTag
		}
		vb := core.Bytes(c["v"])
		v := toValue(kind, vb)
		var evs protoreflect.EnumValueDescriptors
		var ev protoreflect.EnumValueDescriptor
		var es enumSpec
		if kind == "enum" {
			es = parseEnum(c["enum"])
			evs = enumValues(c["enum"], es)
			ev = evs.Get(core.Int(c["idx"]) - 1)
		}
		// real Marshal, real Unmarshal of its output
		s, err := defval.Marshal(v, ev, k, format)
		out["merr"] = err != nil
		out["str"] = core.B([]byte(s))
		out["backok"], out["back"] = false, []any{}
		if err == nil {
			if bv, _, err := defval.Unmarshal(s, k, evs, format); err == nil {
				out["backok"], out["back"] = true, fromValue(kind, bv)
			}
		}
		// real Unmarshal of the specification's text
		text := s
		if core.Int(c["hs"]) == 1 {
			text = string(core.Bytes(c["str"]))
			out["parsedok"], out["parsed"] = false, []any{}
			if pv, _, err := defval.Unmarshal(text, k, evs, format); err == nil {
				out["parsedok"], out["parsed"] = true, fromValue(kind, pv)
			}
		}
		// the default through descriptors: NewFile, ToFileDescriptorProto, NewFile
		if format == defval.Descriptor {
			out["has"], out["d1"], out["d2"], out["s2same"] = false, []any{}, []any{}, false
			out["x1"], out["x2"] = []any{}, []any{}
			f1, err := protodesc.NewFile(fileFor(kind, es, proto.String(text)), nil)
			if err != nil {
				out["derr"] = err.Error()
				break
			}
			fld := f1.Messages().Get(0).Fields().Get(0)
			out["has"] = fld.HasDefault()
			out["d1"] = fromValue(kind, fld.Default())
			out["x1"] = fromValue(kind, f1.Extensions().Get(0).Default())
			p2 := protodesc.ToFileDescriptorProto(f1)
			f2, err := protodesc.NewFile(p2, nil)
			if err != nil {
				out["derr"] = err.Error()
				break
			}
			fld2 := f2.Messages().Get(0).Fields().Get(0)
			out["has"] = fld.HasDefault() && fld2.HasDefault() && f1.Extensions().Get(0).HasDefault() && f2.Extensions().Get(0).HasDefault()
			out["d2"] = fromValue(kind, fld2.Default())
			out["x2"] = fromValue(kind, f2.Extensions().Get(0).Default())
			p3 := protodesc.ToFileDescriptorProto(f2)
			out["s2same"] = p3.MessageType[0].Field[0].GetDefaultValue() == p2.MessageType[0].Field[0].GetDefaultValue()
		}
	case "sweep32":
		sign, exp := uint32(core.Int(c["sign"])), uint32(core.Int(c["ex"]))
		start, stride, count := uint32(core.Int(c["start"])), uint32(core.Int(c["stride"])), core.Int(c["count"])
		fails := []any{}
		n := 0
		for m := start; m < 1<<23 && n < count; m += stride {
			bits := sign<<31 | exp<<23 | m
			if !roundTrip32(bits) && len(fails) < 64 {
				fails = append(fails, core.FromU32(bits))
			}
			n++
		}
		out["n"], out["fails"] = n, fails
	default:
		panic("harness: unknown defval op " + op)
	}
	return out
}

// roundTrip32 sends one float32 bit pattern through the real Marshal/Unmarshal in both formats.
func roundTrip32(bits uint32) bool {
	f := math.Float32frombits(bits)
	v := protoreflect.ValueOfFloat32(f)
	for _, format := range []defval.Format{defval.Descriptor, defval.GoTag} {
		s, err := defval.Marshal(v, nil, protoreflect.FloatKind, format)
		if err != nil {
			return false
		}
		b, _, err := defval.Unmarshal(s, protoreflect.FloatKind, nil, format)
		if err != nil {
			return false
		}
		if canon32(float32(b.Float())) != canon32(f) {
			return false
		}
	}
	return true
}

// ---------------------------------------------------------------------------------------- generator

var hard32 = []uint32{0x15AE43FD, 0x95AE43FD, 0, 0x80000000, 1, 0x007FFFFF, 0x00800000, 0x7F7FFFFF, 0x7F800000, 0xFF800000,
	0x7FC00000, 0x7F800001, 0xFFFFFFFF, 0x3F800000, 0x3DCCCCCD, 0x4B800000, 0x4B7FFFFF, 0x5F000000, 0x60AD78EC}

var hard64 = []uint64{0, 1 << 63, 1, 0x000FFFFFFFFFFFFF, 0x0010000000000000, 0x7FEFFFFFFFFFFFFF, 0x7FF0000000000000,
	0xFFF0000000000000, 0x7FF8000000000001, 0x7FF0000000000001, 0x3FB999999999999A, 0x44B52D02C7E14AF6, 0x4340000000000000,
	0x4340000000000001, 0x3AB5C87FA0000000, 0x47EFFFFFE0000000, 0x36A0000000000000, 0x3690000000000000}

func randBits32(r *rand.Rand) uint32 {
	switch r.IntN(8) {
	case 0:
		return hard32[r.IntN(len(hard32))]
	case 1: // neighbours of the hard patterns
		return hard32[r.IntN(len(hard32))] + uint32(r.IntN(5)) - 2
	case 2: // exponent classes with a random mantissa
		e := []uint32{0, 1, 43, 126, 127, 128, 150, 151, 254, 255}[r.IntN(10)]
		return r.Uint32()&0x807FFFFF | e<<23
	default:
		return r.Uint32()
	}
}

func randBits64(r *rand.Rand) uint64 {
	switch r.IntN(8) {
	case 0:
		return hard64[r.IntN(len(hard64))]
	case 1:
		return hard64[r.IntN(len(hard64))] + uint64(r.IntN(5)) - 2
	case 2:
		e := []uint64{0, 1, 939, 1022, 1023, 1024, 1075, 1076, 2046, 2047}[r.IntN(10)]
		return r.Uint64()&0x800FFFFFFFFFFFFF | e<<52
	case 3: // a float32 widened: the values a float field's default has when seen as float64
		return math.Float64bits(float64(math.Float32frombits(r.Uint32())))
	default:
		return r.Uint64()
	}
}

var enumShapes = [][2]any{}

func init() {
	mk := func(names []string, nums []int32) any {
		var l []any
		for i := range names {
			l = append(l, map[string]any{"n": core.B([]byte(names[i])), "v": core.FromU32(uint32(nums[i]))})
		}
		return l
	}
	enumShapes = append(enumShapes,
		[2]any{mk([]string{"A", "B", "C"}, []int32{0, 1, 2}), 3},
		[2]any{mk([]string{"ZERO", "NEG", "MAX", "MIN", "ALSO_NEG"}, []int32{0, -1, math.MaxInt32, math.MinInt32, -1}), 5},
		[2]any{mk([]string{"nan", "inf", "x1", "_"}, []int32{7, -7, 100000, 0}), 4},
	)
}

func defvalGen(r *rand.Rand, n int, emit func(core.Case)) {
	kinds := []string{"bool", "enum", "int32", "sint32", "sfixed32", "int64", "sint64", "sfixed64", "uint32", "fixed32",
		"uint64", "fixed64", "float", "float", "float", "double", "double", "string", "bytes", "bytes"}
	for i := 0; i < n; i++ {
		kind := kinds[r.IntN(len(kinds))]
		c := core.Case{"op": "rt", "kind": kind, "fmt": []string{"desc", "gotag"}[r.IntN(2)], "enum": []any{}, "idx": 0, "hs": 0, "str": []any{}}
		switch kind {
		case "bool":
			c["v"] = []any{float64(r.IntN(2))}
		case "enum":
			sh := enumShapes[r.IntN(len(enumShapes))]
			idx := 1 + r.IntN(sh[1].(int))
			c["enum"], c["idx"] = sh[0], idx
			c["v"] = core.Map(core.List(sh[0])[idx-1])["v"]
		case "int32", "sint32", "sfixed32", "uint32", "fixed32":
			c["v"] = core.FromU32(uint32(randU64(r)))
		case "int64", "sint64", "sfixed64", "uint64", "fixed64":
			c["v"] = core.FromU64(randU64(r))
		case "float":
			c["v"] = core.FromU32(randBits32(r))
		case "double":
			c["v"] = core.FromU64(randBits64(r))
		case "string", "bytes":
			c["v"] = core.B(randString(r, 16))
		default:
			panic(fmt.Sprint("harness: ", kind))
		}
		emit(c)
	}
}
