// Package nilm: read-only entry points on typed nil messages of every registered generated type (C31).
package nilm

import (
	"fmt"
	"math/rand/v2"
	"reflect"
	"sort"
	"strings"

	"google.golang.org/protobuf/encoding/protojson"
	"google.golang.org/protobuf/encoding/prototext"
	"google.golang.org/protobuf/internal/impl"
	"google.golang.org/protobuf/internal/verifh/core"
	"google.golang.org/protobuf/proto"
	"google.golang.org/protobuf/reflect/protoreflect"
	"google.golang.org/protobuf/reflect/protoregistry"
)

// Module "nilmsg": {type} -> out: what each read-only entry point returns on the typed nil pointer of the type,
// next to what it returns on a new empty message (…E keys), and the list of entry points that panicked.
// Module "niltypes": {} -> out {types: [...]}: every registered generated message type (the quantifier of C31).
func init() {
	core.Register(&core.Module{Name: "nilmsg", Exec: nilExec, Gen: func(r *rand.Rand, n int, emit func(core.Case)) {
		names := typeNames()
		for i := 0; i < n && i < len(names); i++ {
			emit(core.Case{"type": names[i]})
		}
	}})
}

func typeNames() []string {
	var names []string
	protoregistry.GlobalTypes.RangeMessages(func(mt protoreflect.MessageType) bool {
		if _, ok := mt.(*impl.MessageInfo); ok && !mt.Descriptor().IsMapEntry() {
			names = append(names, string(mt.Descriptor().FullName()))
		}
		return true
	})
	sort.Strings(names)
	return names
}

func errc(err error) string {
	if err == nil {
		return ""
	}
	if strings.Contains(err.Error(), "required") {
		return "required"
	}
	return "error"
}

func nilExec(c core.Case) core.Case {
	mt, err := protoregistry.GlobalTypes.FindMessageByName(protoreflect.FullName(core.Str(c["type"])))
	if err != nil {
		panic("harness: unknown type")
	}
	nilMsg := mt.Zero().Interface() // typed nil pointer
	empty := mt.New().Interface()
	out := core.Case{}
	var panics []string
	try := func(name string, f func()) {
		defer func() {
			if r := recover(); r != nil {
				panics = append(panics, fmt.Sprintf("%s: %v", name, r))
			}
		}()
		f()
	}
	rv := reflect.ValueOf(nilMsg)
	out["isnil"] = rv.Kind() == reflect.Ptr && rv.IsNil()
	try("IsValid", func() { out["valid"] = nilMsg.ProtoReflect().IsValid() })
	try("Marshal", func() {
		b, err := proto.Marshal(nilMsg)
		be, erre := proto.Marshal(empty)
		out["bytes"], out["merr"], out["merrE"] = core.B(b), errc(err), errc(erre)
		_ = be
	})
	try("MarshalDet", func() {
		b, _ := proto.MarshalOptions{Deterministic: true, AllowPartial: true}.Marshal(nilMsg)
		out["dbytes"] = core.B(b)
	})
	try("Size", func() { out["size"] = proto.Size(nilMsg) })
	try("Clone", func() { out["clonevalid"] = proto.Clone(nilMsg).ProtoReflect().IsValid() })
	try("Equal", func() {
		out["eqnil"] = proto.Equal(nilMsg, nilMsg)
		out["eqempty"] = proto.Equal(nilMsg, empty)
		out["eqempty2"] = proto.Equal(empty, nilMsg)
	})
	try("CheckInitialized", func() {
		out["init"], out["initE"] = errc(proto.CheckInitialized(nilMsg)), errc(proto.CheckInitialized(empty))
	})
	try("protojson", func() {
		b, err := protojson.MarshalOptions{AllowPartial: true}.Marshal(nilMsg)
		be, erre := protojson.MarshalOptions{AllowPartial: true}.Marshal(empty)
		out["json"] = (err == nil) == (erre == nil) && (err != nil || strings.Join(strings.Fields(string(b)), "") == strings.Join(strings.Fields(string(be)), ""))
		_ = protojson.Format(nilMsg)
	})
	try("prototext", func() {
		b, err := prototext.MarshalOptions{AllowPartial: true}.Marshal(nilMsg)
		be, erre := prototext.MarshalOptions{AllowPartial: true}.Marshal(empty)
		out["text"] = (err == nil) == (erre == nil) && (err != nil || strings.TrimSpace(string(b)) == strings.TrimSpace(string(be)))
		_ = prototext.Format(nilMsg)
	})
	try("reflection", func() {
		m := nilMsg.ProtoReflect()
		fds := m.Descriptor().Fields()
		nhas, ndef := 0, 0
		for i := 0; i < fds.Len(); i++ {
			fd := fds.Get(i)
			if m.Has(fd) {
				nhas++
			}
			v, ve := m.Get(fd), empty.ProtoReflect().Get(fd)
			switch {
			case fd.IsList():
				if v.List().Len() != 0 {
					ndef++
				}
			case fd.IsMap():
				if v.Map().Len() != 0 {
					ndef++
				}
			case fd.Message() != nil:
				if v.Message().IsValid() {
					ndef++
				}
			case fd.Kind() == protoreflect.BytesKind:
				if string(v.Bytes()) != string(ve.Bytes()) {
					ndef++
				}
			default:
				if !v.Equal(ve) {
					ndef++
				}
			}
		}
		nrange := 0
		m.Range(func(protoreflect.FieldDescriptor, protoreflect.Value) bool { nrange++; return true })
		nwhich := 0
		for i := 0; i < m.Descriptor().Oneofs().Len(); i++ {
			if m.WhichOneof(m.Descriptor().Oneofs().Get(i)) != nil {
				nwhich++
			}
		}
		out["nhas"], out["nrange"], out["nwhich"], out["nondefault"], out["unknown"] = nhas, nrange, nwhich, ndef, len(m.GetUnknown())
	})
	try("getters", func() {
		// generated getters on the typed nil pointer return zero values
		t := rv.Type()
		bad := 0
		er := reflect.ValueOf(empty)
		for i := 0; i < t.NumMethod(); i++ {
			mth := t.Method(i)
			if !(strings.HasPrefix(mth.Name, "Get") || strings.HasPrefix(mth.Name, "Has")) || mth.Type.NumIn() != 1 || mth.Type.NumOut() != 1 {
				continue
			}
			got := rv.Method(i).Call(nil)[0]
			want := er.Method(i).Call(nil)[0]
			if !reflect.DeepEqual(got.Interface(), want.Interface()) && !(isNilish(got) && isNilish(want)) {
				bad++
			}
		}
		out["getters"] = bad
	})
	sort.Strings(panics)
	out["panics"] = strings.Join(panics, "; ")
	return out
}

func isNilish(v reflect.Value) bool {
	switch v.Kind() {
	case reflect.Ptr, reflect.Slice, reflect.Map, reflect.Interface:
		return v.IsNil() || (v.Kind() != reflect.Ptr && v.Kind() != reflect.Interface && v.Len() == 0)
	}
	return false
}
