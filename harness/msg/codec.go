package msg

import (
	"encoding/json"
	"math"
	"math/rand/v2"
	"strings"

	"google.golang.org/protobuf/encoding/protojson"
	"google.golang.org/protobuf/encoding/prototext"
	"google.golang.org/protobuf/internal/verifh/core"
	"google.golang.org/protobuf/proto"
	"google.golang.org/protobuf/reflect/protoreflect"
	"google.golang.org/protobuf/types/known/anypb"
	"google.golang.org/protobuf/types/known/structpb"
)

// Module "codec": protojson / prototext round trip of one content (C20, C24).
//
//	{fmt: "json"|"text", type, dyn, lit, opts} -> out {err, rt, valid, same}
//
// opts is a bit mask: json: 1 Multiline, 2 Indent, 4 UseProtoNames, 8 UseEnumNumbers, 16 EmitUnpopulated,
// 32 EmitDefaultValues; text: 1 Multiline, 2 Indent, 4 EmitASCII.  rt is the projection of
// Unmarshal(Marshal(m)); valid: the JSON output is accepted by encoding/json (a second opinion, the grammar is
// C21's subject); same: the message itself is unchanged by marshaling.
func init() {
	core.Register(&core.Module{Name: "codec", Exec: codecExec, Gen: codecGen})
}

// f32Hard lists float32 patterns that are hard for shortest-digit printing / correctly rounded parsing.
var f32Hard = []uint32{0x15ae43fd, 0x95ae43fd, 0x00000001, 0x007fffff, 0x00800000, 0x7f7fffff, 0x3f800001, 0x3effffff, 0x4b000000, 0x4b7fffff,
	0x7f800000, 0xff800000, 0x7fc00000, 0x80000000, 0x0da24260, 0x1e6e6ccf, 0x5d5e0b6b, 0x2b2bfffe, 0x34000000, 0x33ffffff}

// f32Sweep pushes float32 bit patterns through prototext Marshal + Unmarshal of a FloatValue-like field and returns
// the patterns that do not come back (NaNs compare as one value).
func f32Sweep(c core.Case) core.Case {
	chunk, chunks, n := uint64(core.Int(c["chunk"])), uint64(core.Int(c["chunks"])), uint64(core.Int(c["n"]))
	seed := uint64(core.Int(c["seed"]))
	name := "goproto.proto.test3.TestAllTypes"
	m := NewObj(name, false)
	fd := m.Descriptor().Fields().ByName("singular_float")
	m2 := NewObj(name, false)
	var fails []any
	try := func(bits uint32) {
		m.Set(fd, protoreflectValueOfFloat32(bits))
		b, err := prototext.Marshal(m.Interface())
		if err != nil {
			fails = append(fails, core.FromU32(bits))
			return
		}
		protoReset(m2)
		if err := prototext.Unmarshal(b, m2.Interface()); err != nil {
			fails = append(fails, core.FromU32(bits))
			return
		}
		got := float32bits(m2.Get(fd))
		if canon32(got) != canon32(bits) {
			fails = append(fails, core.FromU32(bits))
		}
	}
	swept := uint64(0)
	if chunk == 0 {
		for _, h := range f32Hard {
			try(h)
			swept++
		}
	}
	span := uint64(1) << 32 / chunks
	stride := span / n
	if stride == 0 {
		stride = 1
	}
	off := (seed * 2654435761) % stride
	for k := uint64(0); k < n && k*stride+off < span; k++ {
		try(uint32(chunk*span + k*stride + off))
		swept++
	}
	if fails == nil {
		fails = []any{}
	}
	return core.Case{"fails": fails, "swept": int(swept % (1 << 31))}
}

func codecExec(c core.Case) core.Case {
	if core.Str(c["fmt"]) == "f32" {
		return f32Sweep(c)
	}
	name, dyn := core.Str(c["type"]), core.Bool(c["dyn"])
	lit := core.Map(c["lit"])
	o := core.Int(c["opts"])
	m := NewObj(name, dyn)
	fill(m, lit)
	before := Project(m)
	var b []byte
	var err error
	m2 := NewObj(name, dyn)
	out := core.Case{"valid": true}
	switch core.Str(c["fmt"]) {
	case "json":
		mo := protojson.MarshalOptions{AllowPartial: true, Multiline: o&1 != 0, UseProtoNames: o&4 != 0, UseEnumNumbers: o&8 != 0,
			EmitUnpopulated: o&16 != 0, EmitDefaultValues: o&32 != 0}
		if o&2 != 0 {
			mo.Indent = "\t"
			mo.Multiline = true
		}
		b, err = mo.Marshal(m.Interface())
		if err == nil {
			out["valid"] = json.Valid(b)
			err = protojson.UnmarshalOptions{AllowPartial: true}.Unmarshal(b, m2.Interface())
			if err != nil {
				out["err"] = "unmarshal: " + stripProtoPrefix(err.Error())
			}
		} else {
			out["err"] = errClass(err)
		}
	case "text":
		mo := prototext.MarshalOptions{AllowPartial: true, Multiline: o&1 != 0, EmitASCII: o&4 != 0}
		if o&2 != 0 {
			mo.Indent = "  "
			mo.Multiline = true
		}
		b, err = mo.Marshal(m.Interface())
		if err == nil {
			err = prototext.UnmarshalOptions{AllowPartial: true}.Unmarshal(b, m2.Interface())
			if err != nil {
				out["err"] = "unmarshal: " + stripProtoPrefix(err.Error())
			}
		} else {
			out["err"] = errClass(err)
		}
	}
	if _, ok := out["err"]; !ok {
		out["err"] = ""
		out["rt"] = Project(m2)
	} else {
		out["rt"] = dirtyMarker
	}
	out["same"] = sameJSON(before, Project(m))
	return out
}

func stripProtoPrefix(s string) string {
	s = strings.TrimPrefix(s, "proto:")
	return strings.TrimLeft(s, "  ")
}

// randJSONValue builds a random JSON-like Go value (finite numbers only: non-finite Value numbers are unrepresentable).
func randJSONValue(r *rand.Rand, depth int) any {
	switch k := r.IntN(7); {
	case k == 0:
		return nil
	case k == 1:
		return r.IntN(2) == 0
	case k == 2:
		return []float64{0, 1, -1, 1.5, 1e21, -1e-7, 9007199254740993, 3.141592653589793}[r.IntN(8)]
	case k == 3:
		return []string{"", "a", "é€", "\u0000", "\"quoted\"", "\U0001F600"}[r.IntN(6)]
	case k == 4 && depth > 0:
		l := []any{}
		for i := r.IntN(3); i > 0; i-- {
			l = append(l, randJSONValue(r, depth-1))
		}
		return l
	case depth > 0:
		m := map[string]any{}
		for i := r.IntN(3); i > 0; i-- {
			m[[]string{"a", "b", "", "null", "é"}[r.IntN(5)]] = randJSONValue(r, depth-1)
		}
		return m
	}
	return nil
}

// wktCase builds a Value / Struct / ListValue with representable content; these types are ordinary messages for the
// round-trip claim (their special JSON forms are C23's subject), so the expectation is the same: content comes back.
func wktCase(r *rand.Rand) (string, map[string]any) {
	switch r.IntN(4) {
	case 3:
		// an Any whose JSON object carries strings that need escaping: protojson scans such an object twice (once for "@type")
		inner := structpb.NewStringValue([]string{"a\"b", "c\\d", "e\nf", "\u0001g\"", "plain"}[r.IntN(5)] + []string{"", "\"\\", "z"}[r.IntN(3)])
		a, err := anypb.New(inner)
		if err != nil {
			panic("harness: " + err.Error())
		}
		return "google.protobuf.Any", Project(a.ProtoReflect())
	case 0:
		v, err := structpb.NewValue(randJSONValue(r, 2))
		if err != nil {
			v = structpb.NewNullValue()
		}
		return "google.protobuf.Value", Project(v.ProtoReflect())
	case 1:
		m, _ := randJSONValue(r, 0).(map[string]any)
		mm := map[string]any{"k": randJSONValue(r, 2), "n": nil}
		for k, v := range m {
			mm[k] = v
		}
		s, err := structpb.NewStruct(mm)
		if err != nil {
			s, _ = structpb.NewStruct(map[string]any{"n": nil})
		}
		return "google.protobuf.Struct", Project(s.ProtoReflect())
	default:
		l, err := structpb.NewList([]any{randJSONValue(r, 1), nil, randJSONValue(r, 2)})
		if err != nil {
			l, _ = structpb.NewList([]any{nil})
		}
		return "google.protobuf.ListValue", Project(l.ProtoReflect())
	}
}

func codecGen(r *rand.Rand, n int, emit func(core.Case)) {
	types := typesFromEnv()
	for i := 0; i < n; i++ {
		if r.IntN(6) == 0 {
			name, lit := wktCase(r)
			emit(core.Case{"fmt": "json", "type": name, "dyn": r.IntN(3) == 0, "lit": lit, "opts": r.IntN(64)})
			continue
		}
		name, dyn := splitType(types[r.IntN(len(types))])
		md := NewObj(name, dyn).Descriptor()
		f := "json"
		o := r.IntN(64)
		if r.IntN(2) == 0 {
			f, o = "text", r.IntN(8)
		}
		emit(core.Case{"fmt": f, "type": name, "dyn": dyn, "lit": randLit(r, md, 3), "opts": o})
	}
}

func protoreflectValueOfFloat32(bits uint32) protoreflect.Value {
	return protoreflect.ValueOfFloat32(math.Float32frombits(bits))
}
func float32bits(v protoreflect.Value) uint32 { return math.Float32bits(float32(v.Float())) }
func protoReset(m protoreflect.Message)       { proto.Reset(m.Interface()) }
