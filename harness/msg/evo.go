package msg

import (
	"fmt"
	"sort"
	"strings"
	"sync"

	"google.golang.org/protobuf/proto"
	"google.golang.org/protobuf/reflect/protodesc"
	"google.golang.org/protobuf/reflect/protoreflect"
	"google.golang.org/protobuf/reflect/protoregistry"
	"google.golang.org/protobuf/types/descriptorpb"
	"google.golang.org/protobuf/types/dynamicpb"
)

// Schema evolution (C09): subSchema derives, from the file of a real message type, a descriptor of the same message in
// which the given top-level field numbers do not exist (a reader that predates those fields).  Oneofs that lose all
// members are removed as well.  The derived file lives in its own package so that it can coexist with the original.
var (
	subMu    sync.Mutex
	subCache = map[string]protoreflect.MessageDescriptor{}
)

func subSchema(md protoreflect.MessageDescriptor, del []int) (protoreflect.MessageDescriptor, error) {
	sort.Ints(del)
	key := fmt.Sprint(md.FullName(), del)
	subMu.Lock()
	defer subMu.Unlock()
	if d, ok := subCache[key]; ok {
		return d, nil
	}
	fdp := protodesc.ToFileDescriptorProto(md.ParentFile())
	oldPkg := fdp.GetPackage()
	newPkg := fmt.Sprintf("evo%d.%s", len(subCache), oldPkg)
	fdp.Package = proto.String(newPkg)
	fdp.Name = proto.String(fmt.Sprintf("evo%d/%s", len(subCache), fdp.GetName()))
	// type references inside the file are fully qualified with the old package: requalify them
	requalify := func(s *string) {
		if s == nil || !strings.HasPrefix(*s, "."+oldPkg+".") {
			return
		}
		// only names declared in THIS file move to the new package; same-package names of imported files stay
		d, err := protoregistry.GlobalFiles.FindDescriptorByName(protoreflect.FullName(strings.TrimPrefix(*s, ".")))
		if err != nil || d.ParentFile().Path() != md.ParentFile().Path() {
			return
		}
		*s = "." + newPkg + strings.TrimPrefix(*s, "."+oldPkg)
	}
	var fixMsg func(m *descriptorpb.DescriptorProto)
	fixMsg = func(m *descriptorpb.DescriptorProto) {
		for _, f := range m.Field {
			requalify(f.TypeName)
			requalify(f.Extendee)
		}
		for _, x := range m.Extension {
			requalify(x.TypeName)
			requalify(x.Extendee)
		}
		for _, n := range m.NestedType {
			fixMsg(n)
		}
	}
	for _, m := range fdp.MessageType {
		fixMsg(m)
	}
	for _, x := range fdp.Extension {
		requalify(x.TypeName)
		requalify(x.Extendee)
	}
	for _, s := range fdp.Service {
		for _, mth := range s.Method {
			requalify(mth.InputType)
			requalify(mth.OutputType)
		}
	}
	// find the message (top level or nested) and delete the fields
	rel := strings.Split(strings.TrimPrefix(string(md.FullName()), oldPkg+"."), ".")
	var target *descriptorpb.DescriptorProto
	msgs := fdp.MessageType
	for _, name := range rel {
		target = nil
		for _, m := range msgs {
			if m.GetName() == name {
				target = m
			}
		}
		if target == nil {
			return nil, fmt.Errorf("message %s not found in its file", md.FullName())
		}
		msgs = target.NestedType
	}
	isDel := map[int32]bool{}
	for _, n := range del {
		isDel[int32(n)] = true
	}
	var kept []*descriptorpb.FieldDescriptorProto
	oneofUsed := map[int32]bool{}
	for _, f := range target.Field {
		if isDel[f.GetNumber()] {
			continue
		}
		kept = append(kept, f)
		if f.OneofIndex != nil {
			oneofUsed[f.GetOneofIndex()] = true
		}
	}
	// drop oneofs without members and renumber the indices
	remap := map[int32]int32{}
	var oneofs []*descriptorpb.OneofDescriptorProto
	for i, o := range target.OneofDecl {
		if oneofUsed[int32(i)] {
			remap[int32(i)] = int32(len(oneofs))
			oneofs = append(oneofs, o)
		}
	}
	for _, f := range kept {
		if f.OneofIndex != nil {
			f.OneofIndex = proto.Int32(remap[f.GetOneofIndex()])
		}
	}
	target.Field, target.OneofDecl = kept, oneofs
	fd, err := protodesc.NewFile(fdp, protoregistry.GlobalFiles)
	if err != nil {
		return nil, err
	}
	d := fd.Messages().ByName(protoreflect.Name(rel[0]))
	for _, name := range rel[1:] {
		d = d.Messages().ByName(protoreflect.Name(name))
	}
	subCache[key] = d
	return d, nil
}

// hasUnknownAnywhere reports whether some message of the tree retains unknown fields.
func hasUnknownAnywhere(m protoreflect.Message) bool {
	if len(m.GetUnknown()) > 0 {
		return true
	}
	found := false
	m.Range(func(fd protoreflect.FieldDescriptor, v protoreflect.Value) bool {
		switch {
		case fd.IsMap():
			if fd.MapValue().Message() != nil {
				v.Map().Range(func(_ protoreflect.MapKey, mv protoreflect.Value) bool {
					found = found || hasUnknownAnywhere(mv.Message())
					return !found
				})
			}
		case fd.IsList():
			if fd.Message() != nil {
				for i := 0; i < v.List().Len() && !found; i++ {
					found = hasUnknownAnywhere(v.List().Get(i).Message())
				}
			}
		case fd.Message() != nil:
			found = hasUnknownAnywhere(v.Message())
		}
		return !found
	})
	return found
}

// evolve: o2 := decodeFull(Marshal(decodeSub(Marshal(o)))) ; result [err, discardClean, subHasUnknown]
func evolve(o, o2 protoreflect.Message, del []int, det bool) []any {
	sub, err := subSchema(o.Descriptor(), del)
	if err != nil {
		panic("harness: cannot derive sub-schema: " + err.Error())
	}
	b, err := proto.MarshalOptions{AllowPartial: true, Deterministic: det}.Marshal(o.Interface())
	if err != nil {
		return []any{"utf8", true, false}
	}
	sm := dynamicpb.NewMessage(sub)
	if err := (proto.UnmarshalOptions{AllowPartial: true}).Unmarshal(b, sm); err != nil {
		return []any{"sub: " + errClass(err), true, false}
	}
	dm := dynamicpb.NewMessage(sub)
	discClean := true
	if err := (proto.UnmarshalOptions{AllowPartial: true, DiscardUnknown: true}).Unmarshal(b, dm); err != nil || hasUnknownAnywhere(dm) {
		discClean = false
	}
	b2, err := proto.MarshalOptions{AllowPartial: true}.Marshal(sm)
	if err != nil {
		return []any{"submarshal: " + errClass(err), discClean, len(sm.GetUnknown()) > 0}
	}
	if err := (proto.UnmarshalOptions{AllowPartial: true}).Unmarshal(b2, o2.Interface()); err != nil {
		return []any{"full: " + errClass(err), discClean, len(sm.GetUnknown()) > 0}
	}
	return []any{"", discClean, len(sm.GetUnknown()) > 0}
}
