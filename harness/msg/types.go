package msg

// The corpus: every message package whose types the histories may name is linked in here.
import (
	_ "google.golang.org/protobuf/internal/testprotos/enums"
	_ "google.golang.org/protobuf/internal/testprotos/lazy"
	_ "google.golang.org/protobuf/internal/testprotos/lazy/lazy_hybrid"
	_ "google.golang.org/protobuf/internal/testprotos/lazy/lazy_opaque"
	_ "google.golang.org/protobuf/internal/testprotos/mixed"
	_ "google.golang.org/protobuf/internal/testprotos/required"
	_ "google.golang.org/protobuf/internal/testprotos/required/required_hybrid"
	_ "google.golang.org/protobuf/internal/testprotos/required/required_opaque"
	_ "google.golang.org/protobuf/internal/testprotos/test"
	_ "google.golang.org/protobuf/internal/testprotos/test3"
	_ "google.golang.org/protobuf/internal/testprotos/test3/test3_hybrid"
	_ "google.golang.org/protobuf/internal/testprotos/test3/test3_opaque"
	_ "google.golang.org/protobuf/internal/testprotos/testeditions"
	_ "google.golang.org/protobuf/internal/testprotos/testeditions/testeditions_hybrid"
	_ "google.golang.org/protobuf/internal/testprotos/testeditions/testeditions_opaque"
	// shapes the repository's test schemas lack (opaque, edition 2023; generated with the repository's own protoc-gen-go from
	// rv2.txtpb by gen_main.go.txt, contributed by a reviewing sub-agent): a lazily decodable message used as a DELIMITED field,
	// a map whose value type has a submessage with a required field, lazy fields of a type with extensions
	_ "google.golang.org/protobuf/internal/verifh/rv2pb"
)
