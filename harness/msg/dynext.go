package msg

import (
	"google.golang.org/protobuf/proto"
	"google.golang.org/protobuf/reflect/protodesc"
	"google.golang.org/protobuf/reflect/protoreflect"
	"google.golang.org/protobuf/reflect/protoregistry"
	"google.golang.org/protobuf/types/descriptorpb"
	"google.golang.org/protobuf/types/dynamicpb"

	testpb "google.golang.org/protobuf/internal/testprotos/test"
)

// The corpus has no message-typed extension whose payload is rich (maps, oneofs, lists below an extension).  The
// harness adds one: extend goproto.proto.test.TestAllExtensions { optional TestAllTypes verif_payload = 20005; },
// whose values are dynamicpb messages (a message type without table-driven MessageInfo inside a generated message:
// the generic value coders re-enter package proto there).
const RichExtNumber = 20005

func init() {
	testFile := (&testpb.TestAllTypes{}).ProtoReflect().Descriptor().ParentFile()
	fdp := &descriptorpb.FileDescriptorProto{
		Name:       proto.String("verif/rich_ext.proto"),
		Package:    proto.String("verif.richext"),
		Syntax:     proto.String("proto2"),
		Dependency: []string{testFile.Path()},
		Extension: []*descriptorpb.FieldDescriptorProto{{
			Name:     proto.String("verif_payload"),
			Number:   proto.Int32(RichExtNumber),
			Label:    descriptorpb.FieldDescriptorProto_LABEL_OPTIONAL.Enum(),
			Type:     descriptorpb.FieldDescriptorProto_TYPE_MESSAGE.Enum(),
			TypeName: proto.String(".goproto.proto.test.TestAllTypes"),
			Extendee: proto.String(".goproto.proto.test.TestAllExtensions"),
		}},
	}
	fd, err := protodesc.NewFile(fdp, protoregistry.GlobalFiles)
	if err != nil {
		panic("harness: cannot build the rich extension: " + err.Error())
	}
	if err := protoregistry.GlobalFiles.RegisterFile(fd); err != nil {
		panic("harness: " + err.Error())
	}
	xt := dynamicpb.NewExtensionType(fd.Extensions().Get(0))
	if err := protoregistry.GlobalTypes.RegisterExtension(xt); err != nil {
		panic("harness: " + err.Error())
	}
}

var _ protoreflect.ExtensionType
