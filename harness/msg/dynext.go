package msg

import (
	"fmt"
	"google.golang.org/protobuf/proto"
	"google.golang.org/protobuf/reflect/protodesc"
	"google.golang.org/protobuf/reflect/protoreflect"
	"google.golang.org/protobuf/reflect/protoregistry"
	"google.golang.org/protobuf/types/descriptorpb"
	"google.golang.org/protobuf/types/dynamicpb"

	testpb "google.golang.org/protobuf/internal/testprotos/test"
	testeditionspb "google.golang.org/protobuf/internal/testprotos/testeditions"
)

// The corpus has no message-typed extension whose payload is rich (maps, oneofs, lists below an extension).  The
// harness adds one: extend goproto.proto.test.TestAllExtensions { optional TestAllTypes verif_payload = 20005; },
// whose values are dynamicpb messages (a message type without table-driven MessageInfo inside a generated message:
// the generic value coders re-enter package proto there).
const RichExtNumber = 20005

func init() {
	testFile := (&testpb.TestAllTypes{}).ProtoReflect().Descriptor().ParentFile()
	fdp := &descriptorpb.FileDescriptorProto{
		Name:       proto.String("verif/rich_ext.proto"),
		Package:    proto.String("verif.richext"),
		Syntax:     proto.String("proto2"),
		Dependency: []string{testFile.Path()},
		Extension: []*descriptorpb.FieldDescriptorProto{{
			Name:     proto.String("verif_payload"),
			Number:   proto.Int32(RichExtNumber),
			Label:    descriptorpb.FieldDescriptorProto_LABEL_OPTIONAL.Enum(),
			Type:     descriptorpb.FieldDescriptorProto_TYPE_MESSAGE.Enum(),
			TypeName: proto.String(".goproto.proto.test.TestAllTypes"),
			Extendee: proto.String(".goproto.proto.test.TestAllExtensions"),
		}},
	}
	fd, err := protodesc.NewFile(fdp, protoregistry.GlobalFiles)
	if err != nil {
		panic("harness: cannot build the rich extension: " + err.Error())
	}
	if err := protoregistry.GlobalFiles.RegisterFile(fd); err != nil {
		panic("harness: " + err.Error())
	}
	xt := dynamicpb.NewExtensionType(fd.Extensions().Get(0))
	if err := protoregistry.GlobalTypes.RegisterExtension(xt); err != nil {
		panic("harness: " + err.Error())
	}
	registerEditionsStringExt()
}

// The repository's editions test file for extensions sets features.utf8_validation = NONE for the whole file, so the
// corpus has no string extension that must be validated.  The harness adds an edition 2023 file without feature
// overrides (utf8_validation defaults to VERIFY):
//
//	extend goproto.proto.testeditions.TestAllExtensions { string verif_str = 20006; repeated string verif_strs = 20007; }
const (
	EdStrExtNumber  = 20006
	EdStrsExtNumber = 20007
)

func registerEditionsStringExt() {
	_ = (&testeditionspb.TestAllExtensions{}).ProtoReflect() // make sure the open flavour is linked
	for i, prefix := range []string{"", "hybrid.", "opaque."} {
		extendee := prefix + "goproto.proto.testeditions.TestAllExtensions"
		d, err := protoregistry.GlobalFiles.FindDescriptorByName(protoreflect.FullName(extendee))
		if err != nil {
			continue // flavour not linked into this binary
		}
		ext := func(name string, num int32, label descriptorpb.FieldDescriptorProto_Label) *descriptorpb.FieldDescriptorProto {
			return &descriptorpb.FieldDescriptorProto{
				Name: proto.String(name), Number: proto.Int32(num), Label: label.Enum(),
				Type:     descriptorpb.FieldDescriptorProto_TYPE_STRING.Enum(),
				Extendee: proto.String("." + extendee),
			}
		}
		fdp := &descriptorpb.FileDescriptorProto{
			Name:       proto.String(fmt.Sprintf("verif/editions_string_ext_%d.proto", i)),
			Package:    proto.String(prefix + "goproto.proto.testeditions"), // the extendee's package: cross-flavour JSON/text renaming goes by package
			Syntax:     proto.String("editions"),
			Edition:    descriptorpb.Edition_EDITION_2023.Enum(),
			Dependency: []string{d.ParentFile().Path()},
			Extension: []*descriptorpb.FieldDescriptorProto{
				ext("verif_str", EdStrExtNumber, descriptorpb.FieldDescriptorProto_LABEL_OPTIONAL),
				ext("verif_strs", EdStrsExtNumber, descriptorpb.FieldDescriptorProto_LABEL_REPEATED),
			},
		}
		fd, err := protodesc.NewFile(fdp, protoregistry.GlobalFiles)
		if err != nil {
			panic("harness: cannot build the editions string extensions: " + err.Error())
		}
		if err := protoregistry.GlobalFiles.RegisterFile(fd); err != nil {
			panic("harness: " + err.Error())
		}
		for j := 0; j < fd.Extensions().Len(); j++ {
			if err := protoregistry.GlobalTypes.RegisterExtension(dynamicpb.NewExtensionType(fd.Extensions().Get(j))); err != nil {
				panic("harness: " + err.Error())
			}
		}
	}
}
