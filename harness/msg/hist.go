package msg

import (
	"fmt"
	"strings"

	"google.golang.org/protobuf/internal/verifh/core"
	"google.golang.org/protobuf/proto"
	"google.golang.org/protobuf/reflect/protoreflect"
)

// Module "hist": one case = one history of operations on up to four message objects of one type.
//
//	{type, dyn, steps: [{op, o, ...}], exp|out: {obs: [{objs: [M...], r: result}...]}}
//
// Every step is followed by a projection of all objects, so that the specification (PbObject) can
// check the effect of the step and the absence of any effect on the other objects.
func init() {
	core.Register(&core.Module{Name: "hist", Exec: histExec, Gen: histGen})
}

func errClass(err error) string {
	if err == nil {
		return ""
	}
	s := err.Error()
	switch {
	case strings.Contains(s, "required field"):
		return "required"
	case strings.Contains(s, "invalid UTF-8"):
		return "utf8"
	}
	return "error"
}

// dirtyMarker is the projection of an object whose content is unspecified (after a failed decode).
var dirtyMarker = map[string]any{"f": []any{[]any{0, map[string]any{"s": []any{}}}}, "u": []any{}}

type histObj struct {
	m     protoreflect.Message
	dirty bool
	lz    bool // may hold lazily decoded (possibly non-minimal) raw segments: Size may exceed len(Marshal)
}

// target navigates from the root through singular message fields (Mutable), as named by "at".
func target(m protoreflect.Message, at []any) protoreflect.Message {
	for _, n := range at {
		fd := fieldByNumber(m, core.Int(n))
		m = m.Mutable(fd).Message()
	}
	return m
}

func histExec(c core.Case) core.Case {
	name, dyn := core.Str(c["type"]), core.Bool(c["dyn"])
	nobj := 3
	if n, ok := c["nobj"]; ok {
		nobj = core.Int(n)
	}
	objs := make([]*histObj, nobj)
	for i := range objs {
		objs[i] = &histObj{m: NewObj(name, dyn)}
	}
	var obs []any
	lastonly := core.Bool(c["lastonly"])
	steps := core.List(c["steps"])
	for si, st := range steps {
		s := core.Map(st)
		o := objs[core.Int(s["o"])]
		var o2 *histObj
		if v, ok := s["o2"]; ok {
			o2 = objs[core.Int(v)]
		}
		var r any = 0
		op := core.Str(s["op"])
		// The content of an object is unspecified after a failed decode: the only operations the
		// properties speak about then are Reset and a non-merging Unmarshal (C15).  Everything else
		// that would read a dirty object is skipped (the specification skips it too).
		if (o.dirty && !(op == "reset" || (op == "unmarshal" && !core.Bool(s["merge"])))) ||
			((op == "merge" || op == "equal" || op == "cat" || op == "umerge") && o2.dirty) {
			op = "skip"
		}
		switch op {
		case "skip":
		case "set", "clear", "mut", "app", "trunc", "lset", "mset", "mdel", "setu", "setl":
			m := target(o.m, core.List(s["at"]))
			if op == "setu" {
				m.SetUnknown(protoreflect.RawFields(core.Bytes(s["u"])))
				break
			}
			fd := fieldByNumber(m, core.Int(s["f"]))
			switch op {
			case "set":
				m.Set(fd, single(fd, core.Map(s["v"]), func() protoreflect.Value { return m.NewField(fd) }))
			case "clear":
				m.Clear(fd)
			case "mut":
				m.Mutable(fd)
			case "setl": // replace the whole list by the literal's elements
				m.Clear(fd)
				l := m.Mutable(fd).List()
				for _, ev := range core.List(core.Map(s["v"])["l"]) {
					l.Append(single(fd, core.Map(ev), l.NewElement))
				}
			case "app":
				l := m.Mutable(fd).List()
				l.Append(single(fd, core.Map(s["v"]), l.NewElement))
			case "trunc":
				m.Mutable(fd).List().Truncate(core.Int(s["n"]))
			case "lset":
				l := m.Mutable(fd).List()
				l.Set(core.Int(s["i"]), single(fd, core.Map(s["v"]), l.NewElement))
			case "mset":
				mp := m.Mutable(fd).Map()
				k := scalarValue(fd.MapKey().Kind(), core.Bytes(core.Map(s["k"])["s"])).MapKey()
				mp.Set(k, single(fd.MapValue(), core.Map(s["v"]), mp.NewValue))
			case "mdel":
				mp := m.Mutable(fd).Map()
				mp.Clear(scalarValue(fd.MapKey().Kind(), core.Bytes(core.Map(s["k"])["s"])).MapKey())
			}
		case "reset":
			proto.Reset(o.m.Interface())
			o.dirty, o.lz = false, false
		case "marshal":
			b, err := proto.MarshalOptions{Deterministic: core.Bool(s["det"]), AllowPartial: core.Bool(s["partial"])}.Marshal(o.m.Interface())
			if err != nil {
				b = nil
			}
			r = map[string]any{"err": errClass(err), "b": core.B(b)}
		case "touch": // a getter along the path: read-only, but it makes a deferred lazy field decode (that level only)
			tm := o.m
			for _, n := range core.List(s["at"]) {
				tm = tm.Get(fieldByNumber(tm, core.Int(n))).Message()
			}
			_ = tm.IsValid()
		case "marshalc": // Size, read every field, Marshal with the cached sizes: nothing was changed in between (C16)
			mo := proto.MarshalOptions{Deterministic: core.Bool(s["det"]), AllowPartial: true}
			mo.Size(o.m.Interface())
			Project(o.m)
			mo.UseCachedSize = true
			b, err := mo.Marshal(o.m.Interface())
			if err != nil {
				b = nil
			}
			r = map[string]any{"err": errClass(err), "b": core.B(b)}
		case "size":
			mo := proto.MarshalOptions{Deterministic: core.Bool(s["det"]), AllowPartial: true}
			n := mo.Size(o.m.Interface())
			b, err := mo.Marshal(o.m.Interface())
			ln := len(b)
			if err != nil {
				ln = n // marshaling fails (invalid UTF-8): nothing to compare with
			}
			r = []any{n, ln, o.lz}
		case "unmarshal":
			opts := proto.UnmarshalOptions{Merge: core.Bool(s["merge"]), AllowPartial: core.Bool(s["partial"]),
				DiscardUnknown: core.Bool(s["discard"]), NoLazyDecoding: core.Bool(s["nolazy"])}
			if l := core.Int(s["limit"]); l > 0 {
				opts.RecursionLimit = l
			}
			in := exactBytes(core.Bytes(s["b"]))
			err := opts.Unmarshal(in, o.m.Interface())
			// the input buffer is clobbered after the call: the message must not alias it (C14)
			for i := range in {
				in[i] ^= 0xa5
			}
			ec := errClass(err)
			if ec == "utf8" {
				ec = "error" // lazy validation reports invalid UTF-8 as a generic wire error
			}
			r = ec
			if ec == "error" {
				o.dirty = true
			} else if !opts.Merge {
				o.dirty = false
			}
			if !opts.Merge {
				o.lz = false
			}
			if !opts.NoLazyDecoding {
				o.lz = true
			}
		case "rt": // marshal o, unmarshal into o2 (non-merge)
			b, err := proto.MarshalOptions{Deterministic: core.Bool(s["det"]), AllowPartial: true}.Marshal(o.m.Interface())
			if err == nil {
				err = proto.UnmarshalOptions{AllowPartial: true, NoLazyDecoding: core.Bool(s["nolazy"])}.Unmarshal(b, o2.m.Interface())
				for i := range b {
					b[i] ^= 0x5a
				}
				o2.dirty = false
				o2.lz = !core.Bool(s["nolazy"])
			}
			r = errClass(err)
		case "merge": // proto.Merge(dst = o, src = o2)
			proto.Merge(o.m.Interface(), o2.m.Interface())
			o.lz = o.lz || o2.lz
		case "clone": // o2 = Clone(o)
			o2.m = proto.Clone(o.m.Interface()).ProtoReflect()
			o2.dirty, o2.lz = false, o.lz
		case "cat": // o3 := Unmarshal(Marshal(o) ++ Marshal(o2))   (C07: concatenation = merge)
			o3 := objs[core.Int(s["o3"])]
			b1, err1 := proto.MarshalOptions{AllowPartial: true, Deterministic: core.Bool(s["det"])}.Marshal(o.m.Interface())
			b2, err2 := proto.MarshalOptions{AllowPartial: true}.Marshal(o2.m.Interface())
			if err1 != nil || err2 != nil {
				r = "utf8"
				break
			}
			err := proto.UnmarshalOptions{AllowPartial: true, NoLazyDecoding: core.Bool(s["nolazy"])}.Unmarshal(append(append([]byte{}, b1...), b2...), o3.m.Interface())
			r = errClass(err)
			o3.dirty, o3.lz = false, !core.Bool(s["nolazy"])
		case "umerge": // UnmarshalOptions{Merge: true}.Unmarshal(Marshal(o2), o)
			b2, err2 := proto.MarshalOptions{AllowPartial: true}.Marshal(o2.m.Interface())
			if err2 != nil {
				r = "utf8"
				break
			}
			err := proto.UnmarshalOptions{AllowPartial: true, Merge: true, NoLazyDecoding: core.Bool(s["nolazy"])}.Unmarshal(b2, o.m.Interface())
			r = errClass(err)
		case "evo": // schema evolution (C09): o2 := full(sub(o)) through a reader that lacks the fields in del
			var del []int
			for _, n := range core.List(s["del"]) {
				del = append(del, core.Int(n))
			}
			r = evolve(o.m, o2.m, del, core.Bool(s["det"]))
			if r.([]any)[0] == "" {
				o2.dirty, o2.lz = false, true
			}
		case "scribble": // overwrite, in place, the backing arrays of all bytes values reachable from o (C14)
			scribble(o.m)
		case "equal":
			r = proto.Equal(o.m.Interface(), o2.m.Interface())
		case "checkinit":
			r = proto.CheckInitialized(o.m.Interface()) == nil
		default:
			panic("harness: unknown hist op " + op)
		}
		// Projecting reads every field and thereby decodes lazily deferred submessages.  With
		// "lastonly" the objects are projected only after the final step, so that the steps in
		// between operate on still-deferred state (C17, C04).
		ps := []any{}
		if !lastonly || si == len(steps)-1 {
			ps = make([]any, len(objs))
			for i, x := range objs {
				if x.dirty {
					ps[i] = dirtyMarker
				} else {
					ps[i] = Project(x.m)
				}
			}
		}
		obs = append(obs, map[string]any{"objs": ps, "r": r})
	}
	// reflection-contract self-consistency of the final objects (C28): reported as a string, "" when consistent
	chk := ""
	for _, x := range objs {
		if !x.dirty {
			chk += reflectContract(x.m)
		} else {
			chk += usableAfterFailure(x.m)
		}
	}
	out := core.Case{"obs": obs, "chk": chk}
	if n := len(obs); n > 0 { // the last step's observation, for tour lines that only predict that step
		last := obs[n-1].(map[string]any)
		out["lobjs"], out["lr"] = last["objs"], last["r"]
		if sz, ok := last["r"].([]any); ok && len(sz) == 3 && core.Str(core.Map(steps[len(steps)-1])["op"]) == "size" {
			out["lsize"] = sz[0]
		}
		if mr, ok := last["r"].(map[string]any); ok {
			out["lerr"] = mr["err"]
		}
	}
	return out
}

func exactBytes(b []byte) []byte {
	c := make([]byte, len(b))
	copy(c, b)
	return c[:len(b):len(b)]
}

// reflectContract checks the protoreflect contract on one message: Range visits exactly the fields
// for which Has is true, once each; unpopulated fields read as defaults / invalid empty composites;
// WhichOneof names the populated member; nested messages recursively.
func reflectContract(m protoreflect.Message) string {
	var sb strings.Builder
	md := m.Descriptor()
	seen := map[protoreflect.FieldNumber]int{}
	m.Range(func(fd protoreflect.FieldDescriptor, v protoreflect.Value) bool {
		seen[fd.Number()]++
		if !m.Has(fd) {
			fmt.Fprintf(&sb, "%s: ranged but Has is false; ", fd.FullName())
		}
		if !fd.IsExtension() && fd.ContainingMessage() != md {
			fmt.Fprintf(&sb, "%s: foreign field in Range; ", fd.FullName())
		}
		if fd.Message() != nil && !fd.IsMap() && !fd.IsList() {
			sb.WriteString(reflectContract(v.Message()))
		}
		return true
	})
	for n, k := range seen {
		if k != 1 {
			fmt.Fprintf(&sb, "field %d ranged %d times; ", n, k)
		}
	}
	// fields and registered extensions alike (F42: the extension map handed out its stored list)
	for _, fd := range allFields(md) {
		has := m.Has(fd)
		if has != (seen[fd.Number()] == 1) {
			fmt.Fprintf(&sb, "%s: Has=%v but ranged %d times; ", fd.FullName(), has, seen[fd.Number()])
		}
		if has {
			continue
		}
		v := m.Get(fd)
		switch {
		case fd.IsList():
			if v.List().Len() != 0 {
				fmt.Fprintf(&sb, "%s: unpopulated list not empty; ", fd.FullName())
			}
			if v.List().IsValid() {
				// Get on an unpopulated list returns an empty, read-only (invalid) list; a valid one could be
				// appended to behind the message's back
				fmt.Fprintf(&sb, "%s: unpopulated list reads as a valid (mutable) list; ", fd.FullName())
			}
		case fd.IsMap():
			if v.Map().Len() != 0 {
				fmt.Fprintf(&sb, "%s: unpopulated map not empty; ", fd.FullName())
			}
			if v.Map().IsValid() {
				fmt.Fprintf(&sb, "%s: unpopulated map reads as a valid (mutable) map; ", fd.FullName())
			}
		case fd.Message() != nil:
			if v.Message().IsValid() {
				fmt.Fprintf(&sb, "%s: unpopulated message reads as valid; ", fd.FullName())
			} else if !setPanics(m, fd, v) {
				// Set must refuse an empty read-only message (F43: oneof members and dynamicpb did not)
				fmt.Fprintf(&sb, "%s: Set accepted the invalid message that Get returned; ", fd.FullName())
				m.Clear(fd)
			}
			n := 0
			v.Message().Range(func(protoreflect.FieldDescriptor, protoreflect.Value) bool { n++; return true })
			if n != 0 {
				fmt.Fprintf(&sb, "%s: unpopulated message not empty; ", fd.FullName())
			}
		default:
			def := fd.Default()
			if fd.Kind() == protoreflect.BytesKind {
				if string(v.Bytes()) != string(def.Bytes()) {
					fmt.Fprintf(&sb, "%s: unpopulated bytes != default; ", fd.FullName())
				}
			} else if !v.Equal(def) {
				fmt.Fprintf(&sb, "%s: unpopulated scalar %v != default %v; ", fd.FullName(), v, def)
			}
		}
	}
	ods := md.Oneofs()
	for i := 0; i < ods.Len(); i++ {
		od := ods.Get(i)
		var set []protoreflect.FieldDescriptor
		for j := 0; j < od.Fields().Len(); j++ {
			if m.Has(od.Fields().Get(j)) {
				set = append(set, od.Fields().Get(j))
			}
		}
		w := m.WhichOneof(od)
		switch {
		case len(set) > 1:
			fmt.Fprintf(&sb, "oneof %s has %d members populated; ", od.FullName(), len(set))
		case len(set) == 1 && (w == nil || w.Number() != set[0].Number()):
			fmt.Fprintf(&sb, "oneof %s: WhichOneof=%v, populated=%s; ", od.FullName(), w, set[0].Name())
		case len(set) == 0 && w != nil:
			fmt.Fprintf(&sb, "oneof %s: WhichOneof=%s but nothing populated; ", od.FullName(), w.Name())
		}
	}
	return sb.String()
}

// scribble flips, in place, every byte of every bytes value of the message tree.  An object that
// shares a backing array with this one (after Clone or Merge) changes with it: that is the alias.
func scribble(m protoreflect.Message) {
	flip := func(b []byte) {
		for i := range b {
			b[i] ^= 0xff
		}
	}
	m.Range(func(fd protoreflect.FieldDescriptor, v protoreflect.Value) bool {
		switch {
		case fd.IsMap():
			vf := fd.MapValue()
			v.Map().Range(func(k protoreflect.MapKey, mv protoreflect.Value) bool {
				if vf.Kind() == protoreflect.BytesKind {
					flip(mv.Bytes())
				} else if vf.Message() != nil {
					scribble(mv.Message())
				}
				return true
			})
		case fd.IsList():
			l := v.List()
			for i := 0; i < l.Len(); i++ {
				if fd.Kind() == protoreflect.BytesKind {
					flip(l.Get(i).Bytes())
				} else if fd.Message() != nil {
					scribble(l.Get(i).Message())
				}
			}
		case fd.Kind() == protoreflect.BytesKind:
			flip(v.Bytes())
		case fd.Message() != nil:
			scribble(v.Message())
		}
		return true
	})
}

// usableAfterFailure: what a message holds after a failed Unmarshal is unspecified, but it is a message: every
// operation on it must still return (C06: Unmarshal never panics, whatever the message held before; C17: the lazily
// decoding path must not differ observably from the eager one, which never panics here).  Reported like a contract
// violation: "" when every probe returned.
func usableAfterFailure(m protoreflect.Message) (why string) {
	stage := "Clone"
	defer func() {
		if r := recover(); r != nil {
			why = fmt.Sprintf("after a failed Unmarshal, %s panics: %.160s; ", stage, fmt.Sprint(r))
		}
	}()
	c := proto.Clone(m.Interface())
	stage = "Size"
	proto.Size(c)
	stage = "Marshal"
	b, _ := proto.MarshalOptions{AllowPartial: true}.Marshal(c)
	stage = "Range/Get"
	c.ProtoReflect().Range(func(fd protoreflect.FieldDescriptor, v protoreflect.Value) bool { return true })
	fds := c.ProtoReflect().Descriptor().Fields()
	for i := 0; i < fds.Len(); i++ {
		if fd := fds.Get(i); fd.Message() != nil && !fd.IsList() && !fd.IsMap() {
			c.ProtoReflect().Get(fd).Message().IsValid()
		}
	}
	stage = "Equal"
	proto.Equal(c, m.Interface())
	stage = "Unmarshal{Merge}"
	proto.UnmarshalOptions{Merge: true, AllowPartial: true}.Unmarshal(b, m.Interface())
	stage = "Marshal after Unmarshal{Merge}"
	proto.MarshalOptions{AllowPartial: true}.Marshal(m.Interface())
	stage = "Reset"
	proto.Reset(m.Interface())
	return ""
}

func setPanics(m protoreflect.Message, fd protoreflect.FieldDescriptor, v protoreflect.Value) (panicked bool) {
	defer func() {
		if recover() != nil {
			panicked = true
		}
	}()
	m.Set(fd, v)
	return false
}
