// Package msg is the harness for the core message properties: it exports real descriptors as the
// specification's schema constant, projects real messages onto the specification's abstract message
// value, and executes abstract operation histories on real messages of every API flavour.
package msg

import (
	"encoding/binary"
	"fmt"
	"math"
	"sort"

	"google.golang.org/protobuf/encoding/protowire"
	"google.golang.org/protobuf/internal/verifh/core"
	"google.golang.org/protobuf/proto"
	"google.golang.org/protobuf/reflect/protoreflect"
	"google.golang.org/protobuf/reflect/protoregistry"
	"google.golang.org/protobuf/types/dynamicpb"
)

// Canonical NaN patterns: the properties treat all NaNs as one value.
const (
	nan32 = 0x7fc00000
	nan64 = 0x7ff8000000000000
)

func kindName(k protoreflect.Kind) string {
	return k.String() // "int32", "message", "group", ...
}

// scalarBytes is the canonical byte form of a scalar: fixed-width little endian, bool one byte,
// string/bytes raw.
func scalarBytes(k protoreflect.Kind, v protoreflect.Value) []byte {
	switch k {
	case protoreflect.BoolKind:
		if v.Bool() {
			return []byte{1}
		}
		return []byte{0}
	case protoreflect.Int32Kind, protoreflect.Sint32Kind, protoreflect.Sfixed32Kind:
		return binary.LittleEndian.AppendUint32(nil, uint32(int32(v.Int())))
	case protoreflect.EnumKind:
		return binary.LittleEndian.AppendUint32(nil, uint32(int32(v.Enum())))
	case protoreflect.Uint32Kind, protoreflect.Fixed32Kind:
		return binary.LittleEndian.AppendUint32(nil, uint32(v.Uint()))
	case protoreflect.Int64Kind, protoreflect.Sint64Kind, protoreflect.Sfixed64Kind:
		return binary.LittleEndian.AppendUint64(nil, uint64(v.Int()))
	case protoreflect.Uint64Kind, protoreflect.Fixed64Kind:
		return binary.LittleEndian.AppendUint64(nil, v.Uint())
	case protoreflect.FloatKind:
		f := float32(v.Float())
		bits := math.Float32bits(f)
		if f != f {
			bits = nan32
		}
		return binary.LittleEndian.AppendUint32(nil, bits)
	case protoreflect.DoubleKind:
		f := v.Float()
		bits := math.Float64bits(f)
		if f != f {
			bits = nan64
		}
		return binary.LittleEndian.AppendUint64(nil, bits)
	case protoreflect.StringKind:
		return []byte(v.String())
	case protoreflect.BytesKind:
		return v.Bytes()
	}
	panic("harness: not a scalar kind: " + k.String())
}

func scalarValue(k protoreflect.Kind, b []byte) protoreflect.Value {
	u32 := func() uint32 { return binary.LittleEndian.Uint32(append(append([]byte{}, b...), 0, 0, 0, 0)) }
	u64 := func() uint64 {
		return binary.LittleEndian.Uint64(append(append([]byte{}, b...), 0, 0, 0, 0, 0, 0, 0, 0))
	}
	switch k {
	case protoreflect.BoolKind:
		return protoreflect.ValueOfBool(len(b) > 0 && b[0] != 0)
	case protoreflect.Int32Kind, protoreflect.Sint32Kind, protoreflect.Sfixed32Kind:
		return protoreflect.ValueOfInt32(int32(u32()))
	case protoreflect.EnumKind:
		return protoreflect.ValueOfEnum(protoreflect.EnumNumber(int32(u32())))
	case protoreflect.Uint32Kind, protoreflect.Fixed32Kind:
		return protoreflect.ValueOfUint32(u32())
	case protoreflect.Int64Kind, protoreflect.Sint64Kind, protoreflect.Sfixed64Kind:
		return protoreflect.ValueOfInt64(int64(u64()))
	case protoreflect.Uint64Kind, protoreflect.Fixed64Kind:
		return protoreflect.ValueOfUint64(u64())
	case protoreflect.FloatKind:
		return protoreflect.ValueOfFloat32(math.Float32frombits(u32()))
	case protoreflect.DoubleKind:
		return protoreflect.ValueOfFloat64(math.Float64frombits(u64()))
	case protoreflect.StringKind:
		return protoreflect.ValueOfString(string(b))
	case protoreflect.BytesKind:
		return protoreflect.ValueOfBytes(append([]byte{}, b...))
	}
	panic("harness: not a scalar kind: " + k.String())
}

func isMsgKind(k protoreflect.Kind) bool {
	return k == protoreflect.MessageKind || k == protoreflect.GroupKind
}

// ---------------------------------------------------------------- projection

func projSingle(fd protoreflect.FieldDescriptor, v protoreflect.Value) map[string]any {
	if isMsgKind(fd.Kind()) {
		return map[string]any{"m": Project(v.Message())}
	}
	return map[string]any{"s": core.B(scalarBytes(fd.Kind(), v))}
}

// keyLess orders map keys: by canonical byte length, then bytewise.
func keyLess(a, b []byte) bool {
	if len(a) != len(b) {
		return len(a) < len(b)
	}
	return string(a) < string(b)
}

// Project maps a real message onto the abstract message of the specification:
// {"f": [[num, V] sorted by number over populated fields], "u": raw unknown bytes}.
func Project(m protoreflect.Message) map[string]any {
	type ent struct {
		num int
		v   any
	}
	var ents []ent
	if m.IsValid() {
		m.Range(func(fd protoreflect.FieldDescriptor, v protoreflect.Value) bool {
			var pv any
			switch {
			case fd.IsMap():
				type kv struct {
					k []byte
					e []any
				}
				var kvs []kv
				v.Map().Range(func(k protoreflect.MapKey, mv protoreflect.Value) bool {
					kb := scalarBytes(fd.MapKey().Kind(), k.Value())
					kvs = append(kvs, kv{kb, []any{map[string]any{"s": core.B(kb)}, projSingle(fd.MapValue(), mv)}})
					return true
				})
				sort.Slice(kvs, func(i, j int) bool { return keyLess(kvs[i].k, kvs[j].k) })
				ps := make([]any, len(kvs))
				for i := range kvs {
					ps[i] = kvs[i].e
				}
				pv = map[string]any{"p": ps}
			case fd.IsList():
				l := v.List()
				es := make([]any, l.Len())
				for i := range es {
					es[i] = projSingle(fd, l.Get(i))
				}
				pv = map[string]any{"l": es}
			default:
				pv = projSingle(fd, v)
			}
			ents = append(ents, ent{int(fd.Number()), pv})
			return true
		})
	}
	sort.Slice(ents, func(i, j int) bool { return ents[i].num < ents[j].num })
	fs := make([]any, len(ents))
	for i, e := range ents {
		fs[i] = []any{e.num, e.v}
	}
	var u []byte
	if m.IsValid() {
		u = m.GetUnknown()
	}
	return map[string]any{"f": fs, "u": core.B(normUnknown(u))}
}

// normUnknown re-encodes the tags (and the length prefixes of length-delimited values) of raw unknown fields minimally.  The fast path stores unknown fields
// with a canonical tag, the reflection path keeps the input bytes: the properties allow exactly this
// difference ("up to unknown-field tag normalization").
func normUnknown(u []byte) []byte {
	var out []byte
	b := u
	for len(b) > 0 {
		num, typ, n := protowire.ConsumeTag(b)
		if n < 0 {
			return u
		}
		m := protowire.ConsumeFieldValue(num, typ, b[n:])
		if m < 0 {
			return u
		}
		out = protowire.AppendTag(out, num, typ)
		if typ == protowire.BytesType {
			// ... and the length prefix of a length-delimited value in its shortest form (PbCodec!NormVal): the
			// table-driven MessageSet decoder keeps a non-minimal prefix, the reflection-based one re-encodes it
			v, _ := protowire.ConsumeBytes(b[n : n+m])
			out = protowire.AppendBytes(out, v)
		} else {
			out = append(out, b[n:n+m]...)
		}
		b = b[n+m:]
	}
	return out
}

// ---------------------------------------------------------------- literals -> real values

// fieldByNumber finds a field or a registered extension of the message.
func fieldByNumber(m protoreflect.Message, num int) protoreflect.FieldDescriptor {
	md := m.Descriptor()
	if fd := md.Fields().ByNumber(protoreflect.FieldNumber(num)); fd != nil {
		return fd
	}
	if xt, err := protoregistry.GlobalTypes.FindExtensionByNumber(md.FullName(), protoreflect.FieldNumber(num)); err == nil {
		return xt.TypeDescriptor()
	}
	panic(fmt.Sprintf("harness: %s has no field %d", md.FullName(), num))
}

// fill populates the (empty) message m from an abstract message literal.
func fill(m protoreflect.Message, lit map[string]any) {
	for _, e := range core.List(lit["f"]) {
		pair := core.List(e)
		fd := fieldByNumber(m, core.Int(pair[0]))
		v := core.Map(pair[1])
		switch {
		case fd.IsMap():
			mp := m.Mutable(fd).Map()
			for _, kv := range core.List(v["p"]) {
				p := core.List(kv)
				k := scalarValue(fd.MapKey().Kind(), core.Bytes(core.Map(p[0])["s"])).MapKey()
				mp.Set(k, single(fd.MapValue(), core.Map(p[1]), mp.NewValue))
			}
		case fd.IsList():
			l := m.Mutable(fd).List()
			for _, ev := range core.List(v["l"]) {
				l.Append(single(fd, core.Map(ev), l.NewElement))
			}
		default:
			m.Set(fd, single(fd, v, func() protoreflect.Value { return m.NewField(fd) }))
		}
	}
	if u := core.Bytes(lit["u"]); len(u) > 0 {
		m.SetUnknown(protoreflect.RawFields(u))
	}
}

func single(fd protoreflect.FieldDescriptor, v map[string]any, newv func() protoreflect.Value) protoreflect.Value {
	if isMsgKind(fd.Kind()) {
		nv := newv()
		if lit := core.Map(v["m"]); lit != nil {
			fill(nv.Message(), lit)
		}
		return nv
	}
	return scalarValue(fd.Kind(), core.Bytes(v["s"]))
}

// NewObj creates an empty message: the generated type registered under name, or dynamicpb over its descriptor.
func NewObj(name string, dyn bool) protoreflect.Message {
	mt, err := protoregistry.GlobalTypes.FindMessageByName(protoreflect.FullName(name))
	if err != nil {
		panic("harness: unknown message type " + name)
	}
	if dyn {
		return dynamicpb.NewMessage(mt.Descriptor())
	}
	return mt.New()
}

var _ = proto.Marshal
