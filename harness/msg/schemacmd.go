package msg

import (
	"google.golang.org/protobuf/internal/verifh/core"
	"google.golang.org/protobuf/reflect/protoreflect"
)

// Module "schema": {types: [names]} -> out {schema: {...}}; used by the runner to export the Schema constant.
func init() {
	core.Register(&core.Module{Name: "schema", Exec: func(c core.Case) core.Case {
		var roots []protoreflect.MessageDescriptor
		names := core.List(c["types"])
		if len(names) == 0 {
			for _, t := range DefaultTypes {
				names = append(names, t)
			}
		}
		for _, n := range names {
			name, _ := splitType(core.Str(n))
			roots = append(roots, NewObj(name, false).Descriptor())
		}
		return core.Case{"schema": ExportSchema(roots...)}
	}})
}
