package msg

import (
	"sort"

	"google.golang.org/protobuf/internal/encoding/messageset"
	"google.golang.org/protobuf/internal/flags"
	"google.golang.org/protobuf/internal/verifh/core"
	"google.golang.org/protobuf/reflect/protoreflect"
	"google.golang.org/protobuf/reflect/protoregistry"
)

// Module "schema": {types: [names]} -> out {schema: {...}}; used by the runner to export the Schema constant.
func init() {
	core.Register(&core.Module{Name: "schema", Exec: func(c core.Case) core.Case {
		var roots []protoreflect.MessageDescriptor
		names := core.List(c["types"])
		if len(names) == 0 {
			for _, t := range DefaultTypes {
				names = append(names, t)
			}
		}
		for _, n := range names {
			name, _ := splitType(core.Str(n))
			roots = append(roots, NewObj(name, false).Descriptor())
		}
		return core.Case{"schema": ExportSchema(roots...)}
	}})
}

// Module "typelist": out {types: [every message type registered in the process, sorted]}; the runner draws the
// rotating part of the driver corpus from it, so that every shape of message the repository's test schemas contain
// (not only the hand-picked corpus) is eventually driven.
func init() {
	core.Register(&core.Module{Name: "typelist", Exec: func(c core.Case) core.Case {
		var names []any
		var ss []string
		protoregistry.GlobalTypes.RangeMessages(func(mt protoreflect.MessageType) bool {
			// MessageSet wire format exists only in protolegacy builds (C47 drives it there): without the tag every
			// Marshal/Unmarshal of such a type is refused by design, which the generic history machine does not model
			if !mt.Descriptor().IsMapEntry() && (flags.ProtoLegacy || !reachesMessageSet(mt.Descriptor(), map[protoreflect.FullName]bool{})) {
				ss = append(ss, string(mt.Descriptor().FullName()))
			}
			return true
		})
		sort.Strings(ss)
		for _, s := range ss {
			names = append(names, s)
		}
		return core.Case{"types": names}
	}})
}

func reachesMessageSet(md protoreflect.MessageDescriptor, seen map[protoreflect.FullName]bool) bool {
	if seen[md.FullName()] {
		return false
	}
	seen[md.FullName()] = true
	if messageset.IsMessageSet(md) {
		return true
	}
	found := false
	visit := func(fd protoreflect.FieldDescriptor) {
		if fd.IsMap() {
			fd = fd.MapValue()
		}
		if fd.Message() != nil && reachesMessageSet(fd.Message(), seen) {
			found = true
		}
	}
	for i := 0; i < md.Fields().Len(); i++ {
		visit(md.Fields().Get(i))
	}
	protoregistry.GlobalTypes.RangeExtensionsByMessage(md.FullName(), func(xt protoreflect.ExtensionType) bool {
		visit(xt.TypeDescriptor())
		return true
	})
	return found
}
