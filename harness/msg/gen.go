package msg

import (
	"math"
	"math/rand/v2"
	"os"
	"sort"
	"strings"

	"google.golang.org/protobuf/encoding/protowire"
	"google.golang.org/protobuf/internal/encoding/messageset"
	"google.golang.org/protobuf/internal/verifh/core"
	"google.golang.org/protobuf/proto"
	"google.golang.org/protobuf/reflect/protoreflect"
	"google.golang.org/protobuf/reflect/protoregistry"
)

// DefaultTypes is the corpus used when VERIF_TYPES is not set: "full.name" or "full.name:dyn".
var DefaultTypes = []string{
	"goproto.proto.test.TestAllTypes", "goproto.proto.test.TestAllTypes:dyn",
	"goproto.proto.test.TestAllExtensions", "goproto.proto.test.TestAllExtensions:dyn",
	"goproto.proto.test.TestRequired", "goproto.proto.test.TestRequiredForeign", "goproto.proto.test.TestRequiredForeign:dyn",
	"goproto.proto.test.TestPackedTypes", "goproto.proto.test.TestUnpackedTypes", "goproto.proto.test.TestPackedExtensions",
	"goproto.proto.test3.TestAllTypes", "goproto.proto.test3.TestAllTypes:dyn",
	"hybrid.goproto.proto.test3.TestAllTypes", "opaque.goproto.proto.test3.TestAllTypes",
	"goproto.proto.testeditions.TestAllTypes", "goproto.proto.testeditions.TestAllTypes:dyn",
	"hybrid.goproto.proto.testeditions.TestAllTypes", "opaque.goproto.proto.testeditions.TestAllTypes",
	"opaque.goproto.proto.testeditions.TestAllExtensions", "opaque.goproto.proto.testeditions.TestRequired",
	"opaque.goproto.proto.testeditions.TestRequiredLazy", "opaque.goproto.proto.testeditions.TestManyMessageFieldsMessage",
	"opaque.lazy_tree.Node", "hybrid.lazy_tree.Node", "lazy_tree.Node",
}

func typesFromEnv() []string {
	if s := os.Getenv("VERIF_TYPES"); s != "" {
		return strings.Split(s, ",")
	}
	return DefaultTypes
}

func splitType(t string) (string, bool) {
	if strings.HasSuffix(t, ":dyn") {
		return strings.TrimSuffix(t, ":dyn"), true
	}
	return t, false
}

var interesting64 = []uint64{0, 1, 2, 127, 128, 255, 256, 1<<31 - 1, 1 << 31, 1<<32 - 1, 1 << 32, 1<<63 - 1, 1 << 63, math.MaxUint64, math.MaxUint64 - 1}

func randScalar(r *rand.Rand, fd protoreflect.FieldDescriptor) []byte {
	k := fd.Kind()
	var u uint64
	switch r.IntN(4) {
	case 0:
		u = interesting64[r.IntN(len(interesting64))]
	case 1:
		u = uint64(r.IntN(3))
	default:
		u = r.Uint64() >> uint(r.IntN(64))
		if r.IntN(3) == 0 {
			u = -u
		}
	}
	switch k {
	case protoreflect.BoolKind:
		return []byte{byte(u & 1)}
	case protoreflect.EnumKind:
		vals := fd.Enum().Values()
		if r.IntN(8) != 0 || fd.Enum().IsClosed() {
			u = uint64(uint32(vals.Get(r.IntN(vals.Len())).Number()))
		}
		return core.Bytes(core.FromU32(uint32(u)))
	case protoreflect.FloatKind:
		fs := []uint32{0, 0x80000000, 0x3f800000, 0xbf800000, 0x7f800000, 0xff800000, 0x7fc00000, 0x00000001, 0x7f7fffff, 0x15ae43fd, 0x7fa00000}
		if r.IntN(2) == 0 {
			return core.Bytes(core.FromU32(canon32(fs[r.IntN(len(fs))])))
		}
		return core.Bytes(core.FromU32(canon32(uint32(r.Uint64()))))
	case protoreflect.DoubleKind:
		fs := []uint64{0, 1 << 63, 0x3ff0000000000000, 0x7ff0000000000000, 0xfff0000000000000, 0x7ff8000000000000, 1, 0x7fefffffffffffff}
		if r.IntN(2) == 0 {
			return core.Bytes(core.FromU64(canon64(fs[r.IntN(len(fs))])))
		}
		return core.Bytes(core.FromU64(canon64(r.Uint64())))
	case protoreflect.StringKind:
		return randString(r, fd)
	case protoreflect.BytesKind:
		b := make([]byte, r.IntN(6))
		for i := range b {
			b[i] = byte(r.Uint32())
		}
		return b
	case protoreflect.Int32Kind, protoreflect.Sint32Kind, protoreflect.Sfixed32Kind, protoreflect.Uint32Kind, protoreflect.Fixed32Kind:
		return core.Bytes(core.FromU32(uint32(u)))
	}
	return core.Bytes(core.FromU64(u))
}

// canon32/64 fold NaN payloads: the abstract value has one NaN.
func canon32(b uint32) uint32 {
	if f := math.Float32frombits(b); f != f {
		return nan32
	}
	return b
}
func canon64(b uint64) uint64 {
	if f := math.Float64frombits(b); f != f {
		return nan64
	}
	return b
}

func randString(r *rand.Rand, fd protoreflect.FieldDescriptor) []byte {
	pieces := []string{"", "a", "b", "é", "€", "\U0001F600", "\x00", "\x7f", "hello"}
	s := ""
	for k := r.IntN(3); k >= 0; k-- {
		s += pieces[r.IntN(len(pieces))]
	}
	if r.IntN(25) == 0 { // rarely: invalid UTF-8 (rejected where validation is required)
		bad := []string{"\x80", "\xc0\x80", "\xed\xa0\x80", "\xf4\x90\x80\x80", "\xe2\x82", "\xff"}
		s += bad[r.IntN(len(bad))]
	}
	return []byte(s)
}

// allFields lists the fields and the registered extensions of a message type.
func allFields(md protoreflect.MessageDescriptor) []protoreflect.FieldDescriptor {
	var fs []protoreflect.FieldDescriptor
	for i := 0; i < md.Fields().Len(); i++ {
		fs = append(fs, md.Fields().Get(i))
	}
	n := len(fs)
	protoregistry.GlobalTypes.RangeExtensionsByMessage(md.FullName(), func(xt protoreflect.ExtensionType) bool {
		fs = append(fs, xt.TypeDescriptor())
		return true
	})
	// the registry ranges in map order: sort, so that a seed names the same cases in every process
	sort.Slice(fs[n:], func(i, j int) bool { return fs[n+i].Number() < fs[n+j].Number() })
	return fs
}

// randV builds an abstract single value (scalar or message literal) for fd.
func randV(r *rand.Rand, fd protoreflect.FieldDescriptor, depth int) map[string]any {
	if isMsgKind(fd.Kind()) {
		return map[string]any{"m": randLit(r, fd.Message(), depth-1)}
	}
	return map[string]any{"s": core.B(randScalar(r, fd))}
}

// randLit builds a random abstract message literal {"f": [...], "u": []} (fields in number order, each once).
func randLit(r *rand.Rand, md protoreflect.MessageDescriptor, depth int) map[string]any {
	lit := map[string]any{"f": []any{}, "u": []any{}}
	if depth <= 0 {
		return lit
	}
	fs := allFields(md)
	if len(fs) == 0 {
		return lit
	}
	n := r.IntN(4)
	if r.IntN(6) == 0 {
		n = r.IntN(12)
	}
	chosen := map[int]protoreflect.FieldDescriptor{}
	oneofs := map[string]bool{}
	for i := 0; i < n; i++ {
		fd := fs[r.IntN(len(fs))]
		if od := fd.ContainingOneof(); od != nil {
			if oneofs[string(od.FullName())] {
				continue
			}
			oneofs[string(od.FullName())] = true
		}
		chosen[int(fd.Number())] = fd
	}
	var nums []int
	for k := range chosen {
		nums = append(nums, k)
	}
	sortInts(nums)
	var out []any
	for _, num := range nums {
		fd := chosen[num]
		switch {
		case fd.IsMap():
			m := map[string][]any{}
			var keys [][]byte
			for k := 1 + r.IntN(3); k > 0; k-- {
				kb := randScalar(r, fd.MapKey())
				if fd.MapKey().Kind() == protoreflect.StringKind && !validUTF8(kb) {
					kb = []byte("k")
				}
				if _, dup := m[string(kb)]; !dup {
					keys = append(keys, kb)
				}
				m[string(kb)] = []any{map[string]any{"s": core.B(kb)}, randV(r, fd.MapValue(), depth)}
			}
			sortKeys(keys)
			ps := make([]any, len(keys))
			for i, k := range keys {
				ps[i] = m[string(k)]
			}
			out = append(out, []any{num, map[string]any{"p": ps}})
		case fd.IsList():
			var es []any
			for k := 1 + r.IntN(3); k > 0; k-- {
				es = append(es, randV(r, fd, depth))
			}
			out = append(out, []any{num, map[string]any{"l": es}})
		default:
			v := randV(r, fd, depth)
			if !fd.HasPresence() && !isMsgKind(fd.Kind()) && isZeroScalar(fd, core.Bytes(v["s"])) {
				continue // an implicit-presence zero is not a populated field
			}
			out = append(out, []any{num, v})
		}
	}
	lit["f"] = out
	if out == nil {
		lit["f"] = []any{}
	}
	if r.IntN(5) == 0 {
		lit["u"] = core.B(randUnknown(r, md))
	}
	return lit
}

func isZeroScalar(fd protoreflect.FieldDescriptor, b []byte) bool {
	if fd.Kind() == protoreflect.StringKind || fd.Kind() == protoreflect.BytesKind {
		return len(b) == 0
	}
	return isZeroBytes(b)
}

func isZeroBytes(b []byte) bool {
	for _, x := range b {
		if x != 0 {
			return false
		}
	}
	return true
}

func validUTF8(b []byte) bool {
	return strings.ToValidUTF8(string(b), "�") == string(b) && !strings.ContainsRune(string(b), '�')
}

func sortInts(a []int) {
	for i := 1; i < len(a); i++ {
		for j := i; j > 0 && a[j] < a[j-1]; j-- {
			a[j], a[j-1] = a[j-1], a[j]
		}
	}
}
func sortKeys(a [][]byte) {
	for i := 1; i < len(a); i++ {
		for j := i; j > 0 && keyLess(a[j], a[j-1]); j-- {
			a[j], a[j-1] = a[j-1], a[j]
		}
	}
}

// randUnknown builds raw unknown fields whose numbers the type does not know.
func randUnknown(r *rand.Rand, md protoreflect.MessageDescriptor) []byte {
	known := map[protoreflect.FieldNumber]bool{}
	for _, fd := range allFields(md) {
		known[fd.Number()] = true
	}
	var b []byte
	for k := 1 + r.IntN(3); k > 0; k-- {
		num := protoreflect.FieldNumber(20000 + r.IntN(50))
		if r.IntN(4) == 0 {
			num = protoreflect.FieldNumber(1 + r.IntN(1<<29-1))
		}
		if known[num] || (num >= 19000 && num <= 19999) {
			continue
		}
		kindOfRecord := r.IntN(5)
		if messageset.IsMessageSet(md) {
			kindOfRecord = 3 // a MessageSet can only carry unknown items, i.e. length-delimited records
		}
		switch kindOfRecord {
		case 0:
			b = protowire.AppendTag(b, num, protowire.VarintType)
			b = protowire.AppendVarint(b, randU64(r))
		case 1:
			b = protowire.AppendTag(b, num, protowire.Fixed32Type)
			b = protowire.AppendFixed32(b, r.Uint32())
		case 2:
			b = protowire.AppendTag(b, num, protowire.Fixed64Type)
			b = protowire.AppendFixed64(b, r.Uint64())
		case 3:
			b = protowire.AppendTag(b, num, protowire.BytesType)
			b = protowire.AppendBytes(b, randScalar(r, nil_bytes_fd{}))
		default:
			b = protowire.AppendTag(b, num, protowire.StartGroupType)
			b = protowire.AppendTag(b, 1, protowire.VarintType)
			b = protowire.AppendVarint(b, uint64(r.IntN(300)))
			b = protowire.AppendTag(b, num, protowire.EndGroupType)
		}
	}
	return b
}

// nil_bytes_fd is a minimal FieldDescriptor stand-in for generating random bytes.
type nil_bytes_fd struct{ protoreflect.FieldDescriptor }

func (nil_bytes_fd) Kind() protoreflect.Kind { return protoreflect.BytesKind }

func randU64(r *rand.Rand) uint64 {
	n := r.IntN(65)
	if n == 0 {
		return 0
	}
	v := r.Uint64()
	if n < 64 {
		v &= (1 << n) - 1
	}
	return v
}

// randBytesFor produces wire input for Unmarshal: the encoding of a random literal, sometimes two
// concatenated encodings, sometimes mutated.
func randBytesFor(r *rand.Rand, name string, dyn bool) []byte {
	m := NewObj(name, dyn)
	fill(m, randLit(r, m.Descriptor(), 3))
	b, err := proto.MarshalOptions{AllowPartial: true, Deterministic: r.IntN(2) == 0}.Marshal(m.Interface())
	if err != nil {
		b = nil
	}
	if r.IntN(4) == 0 {
		m2 := NewObj(name, dyn)
		fill(m2, randLit(r, m2.Descriptor(), 2))
		b2, _ := proto.MarshalOptions{AllowPartial: true}.Marshal(m2.Interface())
		b = append(b, b2...)
	}
	for k := r.IntN(3) - 1; k > 0; k-- {
		b = mutateWire(r, b)
	}
	if len(b) > 400 {
		b = b[:400]
	}
	return b
}

func mutateWire(r *rand.Rand, b []byte) []byte {
	b = append([]byte{}, b...)
	if len(b) == 0 {
		return []byte{byte(r.Uint32())}
	}
	i := r.IntN(len(b))
	switch r.IntN(7) {
	case 0:
		return b[:i]
	case 1:
		b[i] = b[i]&^7 | byte(r.IntN(8))
	case 2:
		b[i] = byte(r.Uint32())
	case 3:
		b = append(b[:i], append([]byte{byte(r.Uint32())}, b[i:]...)...)
	case 4:
		b = append(b[:i], b[i+1:]...)
	case 5:
		if b[i] < 0x80 {
			b = append(b[:i], append([]byte{b[i] | 0x80, 0}, b[i+1:]...)...)
		}
	case 6: // duplicate a tail (repeats fields, merges, oneof switches)
		b = append(b, b[i:]...)
	}
	return b
}

// boundaryLens are body lengths around the points where a length prefix grows by one byte.
var boundaryLens = []int{125, 126, 127, 128, 129, 130, 16381, 16382, 16383, 16384, 16385}

// randBoundaryLit builds a literal in which some length-delimited body (a nested message, a packed list, a map
// entry, a string) has a length at or next to 127/128 or 16383/16384 bytes (C03, C04: speculative length prefixes).
func randBoundaryLit(r *rand.Rand, md protoreflect.MessageDescriptor) map[string]any {
	want := boundaryLens[r.IntN(len(boundaryLens))]
	if r.IntN(4) != 0 {
		want = boundaryLens[r.IntN(6)] // mostly the small boundary
	}
	for try := 0; try < 3; try++ {
		if lit := boundaryLitFor(md, want, r.IntN(3)); lit != nil {
			return lit
		}
	}
	return nil
}

// boundaryLitFor: route 0 = a nested message whose encoding is `want` bytes, 1 = a packed list whose body is `want` bytes,
// 2 = a top-level string/bytes value of `want` bytes.  nil if the type has no suitable field.
func boundaryLitFor(md protoreflect.MessageDescriptor, want, route int) map[string]any {
	filler := func(n int) []byte {
		b := make([]byte, n)
		for i := range b {
			b[i] = 'a' + byte(i%7)
		}
		return b
	}
	for _, fd := range allFields(md) {
		switch route {
		case 0:
			if fd.IsList() || fd.IsMap() || fd.Kind() != protoreflect.MessageKind {
				continue
			}
			for _, sf := range allFields(fd.Message()) {
				if sf.IsList() || sf.IsMap() || !(sf.Kind() == protoreflect.BytesKind || sf.Kind() == protoreflect.StringKind) || sf.Number() >= 16 || sf.ContainingOneof() != nil {
					continue
				}
				for l := want - 4; l <= want-2 && l >= 0; l++ {
					if 1+protowire.SizeVarint(uint64(l))+l == want {
						in := map[string]any{"f": []any{[]any{int(sf.Number()), map[string]any{"s": core.B(filler(l))}}}, "u": []any{}}
						return map[string]any{"f": []any{[]any{int(fd.Number()), map[string]any{"m": in}}}, "u": []any{}}
					}
				}
			}
		case 1:
			if !(fd.IsList() && fd.IsPacked() && (fd.Kind() == protoreflect.Int32Kind || fd.Kind() == protoreflect.BoolKind || fd.Kind() == protoreflect.Uint32Kind)) || want > 400 {
				continue
			}
			var es []any
			one := []byte{1, 0, 0, 0}
			if fd.Kind() == protoreflect.BoolKind {
				one = []byte{1}
			}
			for i := 0; i < want; i++ { // one byte per element: the packed body is `want` bytes
				es = append(es, map[string]any{"s": core.B(one)})
			}
			return map[string]any{"f": []any{[]any{int(fd.Number()), map[string]any{"l": es}}}, "u": []any{}}
		case 2:
			if fd.IsList() || fd.IsMap() || !(fd.Kind() == protoreflect.BytesKind || fd.Kind() == protoreflect.StringKind) || fd.ContainingOneof() != nil {
				continue
			}
			return map[string]any{"f": []any{[]any{int(fd.Number()), map[string]any{"s": core.B(filler(want))}}}, "u": []any{}}
		}
	}
	return nil
}

// lazyShuffleInput builds wire input in which the lazy message fields of the type occur many times (more than a dozen
// index entries), non-contiguously and out of field-number order, each occurrence with different scalar content (C17).
func lazyShuffleInput(r *rand.Rand, md protoreflect.MessageDescriptor) []byte {
	var lazies []protoreflect.FieldDescriptor
	for _, fd := range allFields(md) {
		if l, ok := fd.(interface{ IsLazy() bool }); ok && l.IsLazy() && !fd.IsList() && !fd.IsMap() {
			lazies = append(lazies, fd)
		}
	}
	if len(lazies) == 0 {
		return nil
	}
	var recs [][]byte
	n := 13 + r.IntN(12)
	for i := 0; i < n; i++ {
		fd := lazies[r.IntN(len(lazies))]
		sub := NewObj(string(fd.Message().FullName()), false)
		// one scalar of the submessage, a different value every time
		for _, sf := range allFields(fd.Message()) {
			if !sf.IsList() && !sf.IsMap() && sf.Message() == nil && sf.ContainingOneof() == nil {
				sub.Set(sf, scalarValue(sf.Kind(), randScalar(r, sf)))
				if r.IntN(3) != 0 {
					break
				}
			}
		}
		body, _ := proto.MarshalOptions{AllowPartial: true}.Marshal(sub.Interface())
		rec := protowire.AppendTag(nil, fd.Number(), protowire.BytesType)
		rec = protowire.AppendBytes(rec, body)
		recs = append(recs, rec)
		if r.IntN(2) == 0 { // something else in between: an unknown varint
			recs = append(recs, protowire.AppendVarint(protowire.AppendTag(nil, 20000+protowire.Number(r.IntN(40)), protowire.VarintType), uint64(r.IntN(100))))
		}
	}
	r.Shuffle(len(recs), func(i, j int) { recs[i], recs[j] = recs[j], recs[i] })
	var b []byte
	for _, x := range recs {
		b = append(b, x...)
	}
	return b
}

// msgPath picks a random chain of singular message fields from md (possibly empty).
func msgPath(r *rand.Rand, md protoreflect.MessageDescriptor) ([]any, protoreflect.MessageDescriptor) {
	at := []any{}
	for d := r.IntN(3); d > 0; d-- {
		var cands []protoreflect.FieldDescriptor
		for _, fd := range allFields(md) {
			if isMsgKind(fd.Kind()) && !fd.IsList() && !fd.IsMap() {
				cands = append(cands, fd)
			}
		}
		if len(cands) == 0 {
			break
		}
		fd := cands[r.IntN(len(cands))]
		at = append(at, int(fd.Number()))
		md = fd.Message()
	}
	return at, md
}

func randMutation(r *rand.Rand, root protoreflect.MessageDescriptor, o int) map[string]any {
	at, md := msgPath(r, root)
	fs := allFields(md)
	if len(fs) == 0 {
		return map[string]any{"op": "setu", "o": o, "at": at, "u": core.B(randUnknown(r, md))}
	}
	fd := fs[r.IntN(len(fs))]
	s := map[string]any{"o": o, "at": at, "f": int(fd.Number())}
	switch {
	case r.IntN(12) == 0:
		return map[string]any{"op": "setu", "o": o, "at": at, "u": core.B(randUnknown(r, md))}
	case r.IntN(5) == 0:
		s["op"] = "clear"
	case fd.IsMap():
		if r.IntN(4) == 0 {
			s["op"] = "mdel"
		} else {
			s["op"] = "mset"
			s["v"] = randV(r, fd.MapValue(), 2)
		}
		kb := randScalar(r, fd.MapKey())
		if fd.MapKey().Kind() == protoreflect.StringKind && !validUTF8(kb) {
			kb = []byte("k")
		}
		if r.IntN(2) == 0 {
			kb = scalarBytes(fd.MapKey().Kind(), fd.MapKey().Default())
		}
		s["k"] = map[string]any{"s": core.B(kb)}
	case fd.IsList():
		switch r.IntN(6) {
		case 0:
			s["op"], s["n"] = "trunc", 0
		default:
			s["op"], s["v"] = "app", randV(r, fd, 2)
		}
	case isMsgKind(fd.Kind()) && r.IntN(2) == 0:
		s["op"] = "mut"
	default:
		s["op"], s["v"] = "set", randV(r, fd, 2)
	}
	return s
}

// canKeepUnknown reports whether messages of the type can store unknown fields at all.  Old proto3 generated code
// (before 2018) has no XXX_unrecognized field: SetUnknown and unknown fields on the wire are silently dropped, by
// construction of that code and not by a decision of the runtime.  Histories on such types avoid unknown fields.
func canKeepUnknown(name string, dyn bool) bool {
	m := NewObj(name, dyn)
	m.SetUnknown(protoreflect.RawFields{0xa0, 0x9c, 0x01, 0x01})
	return len(m.GetUnknown()) > 0
}

func stripLitUnknown(lit map[string]any) map[string]any {
	return stripUnknown(lit).(map[string]any)
}

// mixFromEnv parses VERIF_MIX="op=weight,..." (default: a general-purpose mix).
func mixFromEnv() ([]string, []int) {
	spec := os.Getenv("VERIF_MIX")
	if spec == "" {
		spec = "mut=11,marshal=1,size=1,unmarshal=2,rt=1,merge=1,clone=1,equal=1,checkinit=1,reset=1,cat=1,umerge=1,scribble=1,boundary=1"
	}
	var ops []string
	var ws []int
	for _, kv := range strings.Split(spec, ",") {
		parts := strings.SplitN(kv, "=", 2)
		w := 1
		if len(parts) == 2 {
			w = 0
			for _, c := range parts[1] {
				w = w*10 + int(c-'0')
			}
		}
		ops = append(ops, parts[0])
		ws = append(ws, w)
	}
	return ops, ws
}

// boundarySweep emits, for every type x flavour given, one history per (route, body length): build the content whose
// length-delimited body has exactly that length, then round-trip it with default and deterministic marshaling and size it.
func boundarySweep(emit func(core.Case)) {
	lens := []int{}
	for l := 120; l <= 135; l++ {
		lens = append(lens, l)
	}
	if os.Getenv("VERIF_SWEEP_LARGE") != "" {
		lens = append(lens, 16382, 16383, 16384, 16385)
	}
	for _, t := range typesFromEnv() {
		name, dyn := splitType(t)
		md := NewObj(name, dyn).Descriptor()
		for _, want := range lens {
			for route := 0; route < 3; route++ {
				lit := boundaryLitFor(md, want, route)
				if lit == nil {
					continue
				}
				var steps []any
				for _, e := range core.List(lit["f"]) {
					pair := core.List(e)
					v := core.Map(pair[1])
					if l := core.List(v["l"]); l != nil {
						steps = append(steps, map[string]any{"op": "setl", "o": 0, "at": []any{}, "f": pair[0], "v": v})
					} else {
						steps = append(steps, map[string]any{"op": "set", "o": 0, "at": []any{}, "f": pair[0], "v": v})
					}
				}
				steps = append(steps,
					map[string]any{"op": "rt", "o": 0, "o2": 1, "det": false, "nolazy": false},
					map[string]any{"op": "rt", "o": 0, "o2": 2, "det": true, "nolazy": true},
					map[string]any{"op": "size", "o": 0, "det": false},
					map[string]any{"op": "marshal", "o": 0, "det": true, "partial": true})
				emit(core.Case{"type": name, "dyn": dyn, "steps": steps, "lastonly": true})
			}
		}
	}
}

func histGen(r *rand.Rand, n int, emit func(core.Case)) {
	if os.Getenv("VERIF_HIST_SWEEP") == "boundary" {
		boundarySweep(emit)
		return
	}
	types := typesFromEnv()
	ops, ws := mixFromEnv()
	total := 0
	for _, w := range ws {
		total += w
	}
	pick := func() string {
		x := r.IntN(total)
		for i, w := range ws {
			if x < w {
				return ops[i]
			}
			x -= w
		}
		return "mut"
	}
	for i := 0; i < n; i++ {
		name, dyn := splitType(types[r.IntN(len(types))])
		md := NewObj(name, dyn).Descriptor()
		keepsUnknown := canKeepUnknown(name, dyn)
		var steps []any
		for k := 3 + r.IntN(6); k > 0; k-- {
			o := r.IntN(3)
			o2 := (o + 1 + r.IntN(2)) % 3
			o3 := 3 - o - o2
			switch pick() {
			case "marshal":
				steps = append(steps, map[string]any{"op": "marshal", "o": o, "det": r.IntN(2) == 0, "partial": r.IntN(3) != 0})
			case "size":
				steps = append(steps, map[string]any{"op": "size", "o": o, "det": r.IntN(2) == 0})
			case "unmarshal":
				in := randBytesFor(r, name, dyn)
				switch r.IntN(8) {
				case 0, 2, 3:
					if sh := lazyShuffleInput(r, md); sh != nil {
						in = sh
					}
				case 1:
					if bl := randBoundaryLit(r, md); bl != nil {
						bm := NewObj(name, dyn)
						fill(bm, bl)
						if bb, err := (proto.MarshalOptions{AllowPartial: true}).Marshal(bm.Interface()); err == nil {
							in = bb
						}
					}
				}
				steps = append(steps, map[string]any{"op": "unmarshal", "o": o, "b": core.B(in),
					"merge": r.IntN(3) == 0, "partial": r.IntN(3) != 0, "discard": r.IntN(6) == 0 || !keepsUnknown, "nolazy": r.IntN(3) == 0, "limit": 0})
			case "rt":
				steps = append(steps, map[string]any{"op": "rt", "o": o, "o2": o2, "det": r.IntN(2) == 0, "nolazy": r.IntN(3) == 0})
			case "merge":
				steps = append(steps, map[string]any{"op": "merge", "o": o, "o2": o2})
			case "clone":
				steps = append(steps, map[string]any{"op": "clone", "o": o, "o2": o2})
			case "equal":
				steps = append(steps, map[string]any{"op": "equal", "o": o, "o2": o2})
			case "checkinit":
				steps = append(steps, map[string]any{"op": "checkinit", "o": o})
			case "reset":
				steps = append(steps, map[string]any{"op": "reset", "o": o})
			case "cat":
				steps = append(steps, map[string]any{"op": "cat", "o": o, "o2": o2, "o3": o3, "det": r.IntN(2) == 0, "nolazy": r.IntN(3) == 0})
			case "umerge":
				steps = append(steps, map[string]any{"op": "umerge", "o": o, "o2": o2, "nolazy": r.IntN(3) == 0})
			case "scribble":
				steps = append(steps, map[string]any{"op": "scribble", "o": o})
			case "evo":
				// delete a random subset of the top-level fields (not extensions: they live in other scopes)
				var del []any
				fds := md.Fields()
				for k := 0; k < fds.Len(); k++ {
					if r.IntN(3) == 0 {
						del = append(del, int(fds.Get(k).Number()))
					}
				}
				if del == nil {
					del = []any{}
				}
				steps = append(steps, map[string]any{"op": "evo", "o": o, "o2": o2, "del": del, "det": r.IntN(2) == 0})
			case "boundary": // populate the object from a literal with a length-boundary body (replaces its content)
				lit := randBoundaryLit(r, md)
				if lit == nil {
					steps = append(steps, randMutation(r, md, o))
					break
				}
				steps = append(steps, map[string]any{"op": "reset", "o": o})
				for _, e := range core.List(lit["f"]) {
					pair := core.List(e)
					v := core.Map(pair[1])
					fd := fieldByNumber(NewObj(name, dyn), core.Int(pair[0]))
					if l := core.List(v["l"]); l != nil {
						steps = append(steps, map[string]any{"op": "setl", "o": o, "at": []any{}, "f": int(fd.Number()), "v": v})
					} else {
						steps = append(steps, map[string]any{"op": "set", "o": o, "at": []any{}, "f": int(fd.Number()), "v": v})
					}
				}
			default:
				mu := randMutation(r, md, o)
				if !keepsUnknown {
					if mu["op"] == "setu" {
						continue
					}
					if v, ok := mu["v"].(map[string]any); ok {
						mu["v"] = stripUnknown(v)
					}
				}
				steps = append(steps, mu)
			}
		}
		emit(core.Case{"type": name, "dyn": dyn, "steps": steps, "lastonly": r.IntN(2) == 0})
	}
}
