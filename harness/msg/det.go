package msg

import (
	"bytes"
	"fmt"
	"math/rand/v2"
	"strings"

	"google.golang.org/protobuf/encoding/protojson"
	"google.golang.org/protobuf/encoding/prototext"
	"google.golang.org/protobuf/internal/verifh/core"
	"google.golang.org/protobuf/proto"
	"google.golang.org/protobuf/reflect/protoreflect"
)

// Module "det":
//
//	{op: "det", type, dyn, lit, id}   deterministic marshaling is a function of content (C05)
//	    -> out {same, det, dec}: the literal is built in several ways (shuffled field and map insertion order,
//	       overwrite, merge of two halves, clone, decode of the default encoding); all deterministic encodings
//	       must be identical (same); det = those bytes; dec = projection of Unmarshal(det)
//	{op: "flav", base, lit, id}       all API flavours of one schema are interchangeable (C29)
//	    -> out {same, det, dec, cross}: one object per flavour (open, dynamicpb, hybrid, opaque); identical
//	       deterministic bytes; every flavour decodes every other flavour's binary, JSON and text output to the
//	       same content (cross = "" or a description)
//	{op: "decdet", type, dyn, b, id}  -> out {err, det}: Unmarshal(b) then deterministic Marshal (C08: the bytes
//	       recorded by the default build and by the protoreflect build must agree)
func init() {
	core.Register(&core.Module{Name: "det", Exec: detExec, Gen: detGen})
}

// fillShuffled populates m from lit inserting fields and map entries in a random order.
func fillShuffled(r *rand.Rand, m protoreflect.Message, lit map[string]any) {
	fs := append([]any{}, core.List(lit["f"])...)
	r.Shuffle(len(fs), func(i, j int) { fs[i], fs[j] = fs[j], fs[i] })
	for i, e := range fs {
		pair := core.List(e)
		v := core.Map(pair[1])
		if ps := core.List(v["p"]); ps != nil {
			ps = append([]any{}, ps...)
			r.Shuffle(len(ps), func(a, b int) { ps[a], ps[b] = ps[b], ps[a] })
			fs[i] = []any{pair[0], map[string]any{"p": ps}}
		}
	}
	fill(m, map[string]any{"f": fs, "u": lit["u"]})
}

func detBytes(m protoreflect.Message) []byte {
	b, err := proto.MarshalOptions{Deterministic: true, AllowPartial: true}.Marshal(m.Interface())
	if err != nil {
		return []byte("ERR") // the message text is deliberately unstable across builds (detrand)
	}
	return b
}

func detExec(c core.Case) core.Case {
	lit := core.Map(c["lit"])
	seed := uint64(core.Int(c["id"]))
	r := rand.New(rand.NewPCG(seed, 99))
	switch core.Str(c["op"]) {
	case "det":
		name, dyn := core.Str(c["type"]), core.Bool(c["dyn"])
		var all [][]byte
		base := NewObj(name, dyn)
		fill(base, lit)
		all = append(all, detBytes(base), detBytes(base)) // repeated marshals
		for k := 0; k < 3; k++ {
			m := NewObj(name, dyn)
			fillShuffled(r, m, lit)
			all = append(all, detBytes(m))
		}
		// overwrite: a different content first, then Reset and the real one
		m := NewObj(name, dyn)
		fill(m, randLit(r, m.Descriptor(), 2))
		proto.Reset(m.Interface())
		fillShuffled(r, m, lit)
		all = append(all, detBytes(m))
		// clone, and decode of the default (non-deterministic) encoding
		all = append(all, detBytes(proto.Clone(base.Interface()).ProtoReflect()))
		nd, err := proto.MarshalOptions{AllowPartial: true}.Marshal(base.Interface())
		if err == nil {
			m2 := NewObj(name, dyn)
			if (proto.UnmarshalOptions{AllowPartial: true}).Unmarshal(nd, m2.Interface()) == nil {
				all = append(all, detBytes(m2))
			}
		}
		same := true
		for _, b := range all[1:] {
			same = same && bytes.Equal(b, all[0])
		}
		out := core.Case{"same": same, "det": core.B(all[0])}
		m3 := NewObj(name, dyn)
		if err := (proto.UnmarshalOptions{AllowPartial: true}).Unmarshal(all[0], m3.Interface()); err != nil {
			out["dec"] = dirtyMarker
		} else {
			out["dec"] = Project(m3)
		}
		return out
	case "flav":
		base := core.Str(c["base"])
		type fl struct {
			name string
			dyn  bool
		}
		fls := []fl{{base, false}, {base, true}}
		for _, p := range []string{"hybrid.", "opaque."} {
			if typeExists(p + base) {
				fls = append(fls, fl{p + base, false})
			}
		}
		objs := make([]protoreflect.Message, len(fls))
		var all [][]byte
		for i, f := range fls {
			objs[i] = NewObj(f.name, f.dyn)
			fillShuffled(r, objs[i], lit)
			all = append(all, detBytes(objs[i]))
		}
		same := true
		for _, b := range all[1:] {
			same = same && bytes.Equal(b, all[0])
		}
		var cross strings.Builder
		want := Project(objs[0])
		wantNoU := stripUnknown(want)
		for i, f := range fls {
			jb, jerr := protojson.MarshalOptions{AllowPartial: true}.Marshal(objs[i].Interface())
			tb, terr := prototext.MarshalOptions{AllowPartial: true}.Marshal(objs[i].Interface())
			for j, g := range fls {
				if i == j {
					continue
				}
				m := NewObj(g.name, g.dyn)
				if err := (proto.UnmarshalOptions{AllowPartial: true}).Unmarshal(all[i], m.Interface()); err != nil || !sameJSON(Project(m), want) {
					cross.WriteString(f.name + " binary -> " + g.name + "; ")
				}
				if jerr == nil {
					m = NewObj(g.name, g.dyn)
					if err := (protojson.UnmarshalOptions{AllowPartial: true}).Unmarshal(renameJSON(jb, f.name, g.name), m.Interface()); err != nil || !sameJSON(Project(m), wantNoU) {
						cross.WriteString(f.name + " json -> " + g.name + "; ")
					}
				}
				if terr == nil {
					m = NewObj(g.name, g.dyn)
					if err := (prototext.UnmarshalOptions{AllowPartial: true}).Unmarshal(renameJSON(tb, f.name, g.name), m.Interface()); err != nil || !sameJSON(Project(m), wantNoU) {
						cross.WriteString(f.name + " text -> " + g.name + "; ")
					}
				}
			}
			if (jerr == nil) != (i == 0 || jerr == nil) {
				cross.WriteString("json verdicts differ; ")
			}
		}
		out := core.Case{"same": same, "det": core.B(all[0]), "cross": cross.String()}
		m3 := NewObj(base, false)
		if err := (proto.UnmarshalOptions{AllowPartial: true}).Unmarshal(all[0], m3.Interface()); err != nil {
			out["dec"] = dirtyMarker
		} else {
			out["dec"] = Project(m3)
		}
		return out
	case "decdet":
		m := NewObj(core.Str(c["type"]), core.Bool(c["dyn"]))
		err := (proto.UnmarshalOptions{AllowPartial: true}).Unmarshal(core.Bytes(c["b"]), m.Interface())
		ec := errClass(err)
		if ec == "utf8" {
			ec = "error"
		}
		out := core.Case{"err": ec, "det": []any{}, "size": 0, "init": false, "cloneq": true}
		if ec == "" {
			out["det"] = core.B(detBytes(m))
			out["size"] = proto.Size(m.Interface())
			out["init"] = proto.CheckInitialized(m.Interface()) == nil
			c2 := proto.Clone(m.Interface())
			out["cloneq"] = proto.Equal(c2, m.Interface())
		}
		return out
	}
	panic("harness: unknown det op")
}

func typeExists(name string) bool {
	defer func() { recover() }()
	NewObj(name, false)
	return true
}

// renameJSON rewrites type-name prefixes (extension names "[pkg.ext]" and Any URLs) from one flavour's
// proto package to another's; plain field names are identical across flavours.
func renameJSON(b []byte, from, to string) []byte {
	pf, pt := pkgOf(from), pkgOf(to)
	if pf == pt {
		return b
	}
	s := string(b)
	s = strings.ReplaceAll(s, "["+pf+".", "["+pt+".")
	return []byte(s)
}

func pkgOf(full string) string {
	if i := strings.LastIndexByte(full, '.'); i >= 0 {
		return full[:i]
	}
	return ""
}

func sameJSON(a, b any) bool {
	return len(core.Diff(map[string]any{"x": a}, map[string]any{"x": b})) == 0
}

// stripUnknown removes unknown fields at every level (JSON and text do not carry them).
func stripUnknown(p any) any {
	m, ok := p.(map[string]any)
	if !ok {
		return p
	}
	out := map[string]any{}
	for k, v := range m {
		switch k {
		case "u":
			out[k] = []any{}
		case "f":
			var fs []any
			for _, e := range core.List(v) {
				pair := core.List(e)
				fs = append(fs, []any{pair[0], stripUnknown(pair[1])})
			}
			if fs == nil {
				fs = []any{}
			}
			out[k] = fs
		case "m":
			out[k] = stripUnknown(v)
		case "l":
			var l []any
			for _, e := range core.List(v) {
				l = append(l, stripUnknown(e))
			}
			out[k] = l
		case "p":
			var l []any
			for _, e := range core.List(v) {
				pair := core.List(e)
				l = append(l, []any{pair[0], stripUnknown(pair[1])})
			}
			out[k] = l
		default:
			out[k] = v
		}
	}
	return out
}

func detGen(r *rand.Rand, n int, emit func(core.Case)) {
	types := typesFromEnv()
	bases := []string{"goproto.proto.testeditions.TestAllTypes", "goproto.proto.test3.TestAllTypes", "goproto.proto.test.TestAllTypes",
		"goproto.proto.testeditions.TestRequiredForeign", "goproto.proto.testeditions.TestAllExtensions"}
	for i := 0; i < n; i++ {
		switch r.IntN(4) {
		case 0:
			base := bases[r.IntN(len(bases))]
			md := NewObj(base, false).Descriptor()
			emit(core.Case{"op": "flav", "base": base, "lit": jsonSafeLit(r, md), "id": i})
		case 1:
			name, dyn := splitType(types[r.IntN(len(types))])
			emit(core.Case{"op": "decdet", "type": name, "dyn": dyn, "b": core.B(randBytesFor(r, name, dyn)), "id": i})
		default:
			name, dyn := splitType(types[r.IntN(len(types))])
			md := NewObj(name, dyn).Descriptor()
			lit := randLit(r, md, 3)
			if name == "goproto.proto.test.TestAllExtensions" && r.IntN(2) == 0 {
				// a rich payload (maps with several entries, lists, oneofs) below a singular message extension
				pd := NewObj("goproto.proto.test.TestAllTypes", false).Descriptor()
				var pl map[string]any
				for try := 0; try < 20; try++ {
					pl = randLit(r, pd, 3)
					if strings.Contains(fmt.Sprint(pl), "p:[") || try == 19 {
						break
					}
				}
				lit = map[string]any{"f": []any{[]any{RichExtNumber, map[string]any{"m": pl}}}, "u": []any{}}
			}
			emit(core.Case{"op": "det", "type": name, "dyn": dyn, "lit": lit, "id": i})
		}
	}
}

// jsonSafeLit is a random literal whose strings are valid UTF-8 and that has no unknown fields (JSON/text representable).
func jsonSafeLit(r *rand.Rand, md protoreflect.MessageDescriptor) map[string]any {
	for {
		lit := randLit(r, md, 3)
		m := NewObj(string(md.FullName()), false)
		fill(m, lit)
		if _, err := protojson.Marshal(m.Interface()); err == nil || strings.Contains(err.Error(), "required") {
			return lit
		}
	}
}
