package msg

import (
	"google.golang.org/protobuf/types/descriptorpb"
	"sort"

	"google.golang.org/protobuf/internal/encoding/messageset"
	"google.golang.org/protobuf/reflect/protoreflect"
	"google.golang.org/protobuf/reflect/protoregistry"
)

// ExportSchema renders the descriptors reachable from the roots (through fields and registered
// extensions) as the specification's Schema constant:
//
//	Schema[fullName] = [fields |-> <<[num, kind, card, packed, pres, oneof, msg, ismap, utf8, ext, lazy]...>>, mset |-> BOOLEAN]
//
// The specification and the code therefore always talk about the same schema; the correctness of
// the descriptor accessors used here is the subject of C34-C38.
func ExportSchema(roots ...protoreflect.MessageDescriptor) map[string]any {
	out := map[string]any{}
	var visit func(md protoreflect.MessageDescriptor)
	field := func(fd protoreflect.FieldDescriptor) map[string]any {
		card := "opt"
		switch fd.Cardinality() {
		case protoreflect.Required:
			card = "req"
		case protoreflect.Repeated:
			card = "rep"
		}
		oneof := 0
		if od := fd.ContainingOneof(); od != nil && !od.IsSynthetic() {
			oneof = od.Index() + 1
		}
		msg := ""
		if fd.Message() != nil {
			msg = string(fd.Message().FullName())
			visit(fd.Message())
		}
		lazy := false
		if l, ok := fd.(interface{ IsLazy() bool }); ok {
			lazy = l.IsLazy()
		}
		return map[string]any{
			"num": int(fd.Number()), "kind": kindName(fd.Kind()), "card": card, "packed": fd.IsPacked(),
			"pres": fd.HasPresence(), "oneof": oneof, "msg": msg, "ismap": fd.IsMap(),
			"utf8": utf8Validated(fd), "ext": fd.IsExtension(), "lazy": lazy,
		}
	}
	visit = func(md protoreflect.MessageDescriptor) {
		name := string(md.FullName())
		if _, ok := out[name]; ok {
			return
		}
		rec := map[string]any{"mset": messageset.IsMessageSet(md)}
		out[name] = rec
		var fs []map[string]any
		for i := 0; i < md.Fields().Len(); i++ {
			fs = append(fs, field(md.Fields().Get(i)))
		}
		protoregistry.GlobalTypes.RangeExtensionsByMessage(md.FullName(), func(xt protoreflect.ExtensionType) bool {
			fs = append(fs, field(xt.TypeDescriptor()))
			return true
		})
		sort.Slice(fs, func(i, j int) bool { return fs[i]["num"].(int) < fs[j]["num"].(int) })
		l := make([]any, len(fs))
		for i := range fs {
			l[i] = fs[i]
		}
		rec["fields"] = l
	}
	for _, r := range roots {
		visit(r)
	}
	return out
}

// utf8Validated decides from the DECLARATION whether a string field's content must be valid UTF-8 (C13): proto3 yes,
// proto2 no, editions: the nearest explicit features.utf8_validation on the field, the enclosing messages, the file,
// else the edition default VERIFY.  Deliberately not computed with the library's own strs.EnforceUTF8: the oracle must
// not share the implementation's helper (F29: that helper answered "no" for every extension of an editions file).
// (The Google-internal proto3 option enforce_utf8 = false only matters in protolegacy builds and is not in the corpus.)
func utf8Validated(fd protoreflect.FieldDescriptor) bool {
	if fd.Kind() != protoreflect.StringKind {
		return false
	}
	if xtd, ok := fd.(protoreflect.ExtensionTypeDescriptor); ok {
		fd = xtd.Descriptor()
	}
	switch fd.Syntax() { // (descriptors derived from legacy extension descs have no parent file)
	case protoreflect.Proto2:
		return false
	case protoreflect.Proto3:
		return true
	}
	verdict := func(fs *descriptorpb.FeatureSet) (bool, bool) {
		if fs == nil || fs.Utf8Validation == nil {
			return false, false
		}
		return fs.GetUtf8Validation() == descriptorpb.FeatureSet_VERIFY, true
	}
	if fo, ok := fd.Options().(*descriptorpb.FieldOptions); ok {
		if v, set := verdict(fo.GetFeatures()); set {
			return v
		}
	}
	for d := fd.Parent(); d != nil; d = d.Parent() {
		switch x := d.(type) {
		case protoreflect.MessageDescriptor:
			if mo, ok := x.Options().(*descriptorpb.MessageOptions); ok {
				if v, set := verdict(mo.GetFeatures()); set {
					return v
				}
			}
		case protoreflect.FileDescriptor:
			if fo, ok := x.Options().(*descriptorpb.FileOptions); ok {
				if v, set := verdict(fo.GetFeatures()); set {
					return v
				}
			}
		}
	}
	return true
}
