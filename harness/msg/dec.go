package msg

import (
	"math/rand/v2"

	"google.golang.org/protobuf/internal/impl"
	"google.golang.org/protobuf/internal/verifh/core"
	"google.golang.org/protobuf/proto"
	"google.golang.org/protobuf/reflect/protoreflect"
	piface "google.golang.org/protobuf/runtime/protoiface"
)

// Module "dec": one Unmarshal of arbitrary bytes into a fresh message, plus the fast-path validator (C06).
//
//	{type, dyn, b, limit, partial, discard, nolazy} -> out {err, obj, val, vinit, vok}
func init() {
	core.Register(&core.Module{Name: "dec", Exec: decExec, Gen: decGen})
}

func decExec(c core.Case) core.Case {
	name, dyn := core.Str(c["type"]), core.Bool(c["dyn"])
	m := NewObj(name, dyn)
	in := exactBytes(core.Bytes(c["b"]))
	opts := proto.UnmarshalOptions{AllowPartial: core.Bool(c["partial"]), DiscardUnknown: core.Bool(c["discard"]), NoLazyDecoding: core.Bool(c["nolazy"])}
	if l := core.Int(c["limit"]); l > 0 {
		opts.RecursionLimit = l
	}
	err := opts.Unmarshal(in, m.Interface())
	ec := errClass(err)
	if ec == "utf8" {
		ec = "error"
	}
	out := core.Case{"err": ec}
	// the same input followed by sentinel bytes inside a larger allocation must give the same verdict
	// when only the prefix is passed (no read beyond the slice)
	big := append(append(make([]byte, 0, len(in)+8), in...), 0xff, 0xff, 0x80, 0x0a, 0xff, 0x7f, 0x08, 0x01)
	m2 := NewObj(name, dyn)
	err2 := opts.Unmarshal(big[:len(in)], m2.Interface())
	out["bounded"] = errClass(err2) == errClass(err) && (err != nil || proto.Equal(m.Interface(), m2.Interface()))
	for i := range in {
		in[i] ^= 0xa5
	}
	if ec == "error" {
		out["obj"] = dirtyMarker
		if s := usableAfterFailure(m); s != "" {
			out["chk"] = s
		}
	} else {
		out["obj"] = Project(m)
		if s := reflectContract(m); s != "" {
			out["chk"] = s
		}
	}
	// the validator used by lazy decoding
	val, vinit, vok := "n/a", false, true
	if mt, ok := m.Type().(*impl.MessageInfo); ok && !dyn {
		depth := core.Int(c["limit"])
		vo, st := impl.Validate(mt, piface.UnmarshalInput{Buf: exactBytes(core.Bytes(c["b"])), Depth: depth})
		val = st.String()
		vinit = vo.Flags&piface.UnmarshalInitialized != 0
		// agreement with an AllowPartial Unmarshal (what the validator promises)
		m3 := NewObj(name, false)
		po := opts
		po.AllowPartial = true
		perr := po.Unmarshal(exactBytes(core.Bytes(c["b"])), m3.Interface())
		switch st {
		case impl.ValidationValid:
			vok = perr == nil
		case impl.ValidationInvalid:
			vok = perr != nil
		}
		if vinit && (perr != nil || proto.CheckInitialized(m3.Interface()) != nil) {
			vok = false
		}
	}
	out["val"], out["vinit"], out["vok"] = val, vinit, vok
	return out
}

var _ protoreflect.Message

func decGen(r *rand.Rand, n int, emit func(core.Case)) {
	types := typesFromEnv()
	for i := 0; i < n; i++ {
		name, dyn := splitType(types[r.IntN(len(types))])
		b := randBytesFor(r, name, dyn)
		for k := r.IntN(4); k > 0; k-- {
			b = mutateWire(r, b)
		}
		if r.IntN(10) == 0 { // pure noise
			b = make([]byte, r.IntN(24))
			for j := range b {
				b[j] = byte(r.Uint32())
			}
		}
		if len(b) > 300 {
			b = b[:300]
		}
		limit := 0
		if r.IntN(4) == 0 {
			limit = 1 + r.IntN(4)
		}
		emit(core.Case{"type": name, "dyn": dyn, "b": core.B(b), "limit": limit, "partial": r.IntN(2) == 0,
			"discard": r.IntN(5) == 0, "nolazy": r.IntN(2) == 0})
	}
}
