// Package core is the module registry and the JSON plumbing of the conformance harness.
//
// Every harness module M offers
//
//	Exec(in) -> out   run one case (an operation with its inputs, or a whole history) on the real code
//	Gen(rng, n)       produce n seeded random cases (inputs only)
//
// A *tour line* (written by TLC from a specification) is a case plus "exp": the specification's
// expectation; replaying it means Exec + field-wise comparison of exp with out.  A *trace event*
// (validated by TLC against the specification) is a case plus "out".  Both directions therefore
// share one executor and one JSON shape per module.
package core

import (
	"bufio"
	"bytes"
	"encoding/json"
	"fmt"
	"io"
	"math/rand/v2"
	"os"
	"reflect"
	"runtime"
	"sort"
	"strings"
	"sync"
)

type Case = map[string]any

type Module struct {
	Name string
	// Exec runs one case against the real code.  It must not panic for harness reasons; a panic of
	// the code under test is caught by the caller and reported as out = {"panic": "..."}.
	Exec func(c Case) Case
	// Gen produces seeded random cases.
	Gen func(r *rand.Rand, n int, emit func(Case))
	// Sequential modules are executed on one goroutine (they use global hooks or process state).
	Sequential bool
}

var modules = map[string]*Module{}

func Register(m *Module) { modules[m.Name] = m }

func Get(name string) *Module { return modules[name] }

func Names() []string {
	var s []string
	for k := range modules {
		s = append(s, k)
	}
	sort.Strings(s)
	return s
}

// ---- JSON helpers (64-bit safe: no JSON number >= 2^31 ever crosses the boundary)

func B(b []byte) []any {
	r := make([]any, len(b))
	for i, x := range b {
		r[i] = float64(x)
	}
	return r
}

func Bytes(v any) []byte {
	if v == nil {
		return nil
	}
	a, ok := v.([]any)
	if !ok {
		panic(fmt.Sprintf("harness: expected byte array, got %T", v))
	}
	r := make([]byte, len(a))
	for i, x := range a {
		r[i] = byte(Int(x))
	}
	return r
}

func Int(v any) int {
	switch x := v.(type) {
	case float64:
		return int(x)
	case int:
		return x
	case json.Number:
		n, _ := x.Int64()
		return int(n)
	case bool:
		if x {
			return 1
		}
		return 0
	}
	panic(fmt.Sprintf("harness: expected int, got %T", v))
}

func Str(v any) string {
	s, _ := v.(string)
	return s
}

func Bool(v any) bool {
	b, _ := v.(bool)
	return b
}

func List(v any) []any {
	a, _ := v.([]any)
	return a
}

func Map(v any) map[string]any {
	m, _ := v.(map[string]any)
	return m
}

func U64(v any) uint64 {
	b := Bytes(v)
	var x uint64
	for i := 0; i < len(b) && i < 8; i++ {
		x |= uint64(b[i]) << (8 * i)
	}
	return x
}

func FromU64(x uint64) []any {
	r := make([]any, 8)
	for i := range r {
		r[i] = float64(byte(x >> (8 * i)))
	}
	return r
}

func FromU32(x uint32) []any {
	r := make([]any, 4)
	for i := range r {
		r[i] = float64(byte(x >> (8 * i)))
	}
	return r
}

// Norm round-trips a value through JSON so that typed Go values compare equal to decoded ones.
func Norm(v any) any {
	b, err := json.Marshal(v)
	if err != nil {
		panic(err)
	}
	var r any
	if err := json.Unmarshal(b, &r); err != nil {
		panic(err)
	}
	return r
}

func checkNumbers(v any) {
	switch x := v.(type) {
	case float64:
		if x >= 1<<31 || x <= -(1<<31) || x != float64(int64(x)) {
			panic(fmt.Sprintf("harness: JSON number %v would be mangled by TLC's Json module", x))
		}
	case []any:
		for _, y := range x {
			checkNumbers(y)
		}
	case map[string]any:
		for _, y := range x {
			checkNumbers(y)
		}
	}
}

// SafeExec runs the module executor and converts a panic of the code under test into an output.
func SafeExec(m *Module, c Case) (out Case) {
	defer func() {
		if r := recover(); r != nil {
			if msg := fmt.Sprint(r); strings.HasPrefix(msg, "harness:") {
				// a defect of the harness itself is never a verdict about the code under test
				fmt.Fprintln(os.Stderr, "HARNESS-BUG:", msg)
				os.Exit(2)
			}
			buf := make([]byte, 2048)
			buf = buf[:runtime.Stack(buf, false)]
			out = Case{"panic": fmt.Sprint(r), "stack": string(buf)}
		}
	}()
	return m.Exec(c)
}

// Diff compares the specification's expectation with the observation, key by key.
func Diff(exp, out any) []string {
	var d []string
	e, _ := Norm(exp).(map[string]any)
	o, _ := Norm(out).(map[string]any)
	if _, ok := o["panic"]; ok {
		return []string{"panic"}
	}
	var keys []string
	for k := range e {
		keys = append(keys, k)
	}
	sort.Strings(keys)
	for _, k := range keys {
		ov, ok := o[k]
		if !ok || !reflect.DeepEqual(e[k], ov) {
			d = append(d, k)
		}
	}
	return d
}

// RunFile executes every line of an ndjson file and writes one event per line: the case, "out", and
// when the case carried "exp", the list "diff" of disagreeing keys.
func RunFile(m *Module, in io.Reader, out io.Writer) (n, ndiff int, err error) {
	sc := bufio.NewScanner(in)
	sc.Buffer(make([]byte, 1<<20), 1<<28)
	var lines [][]byte
	for sc.Scan() {
		b := bytes.TrimSpace(sc.Bytes())
		if len(b) == 0 {
			continue
		}
		lines = append(lines, append([]byte(nil), b...))
	}
	if err := sc.Err(); err != nil {
		return 0, 0, err
	}
	res := make([][]byte, len(lines))
	diffs := make([]int, len(lines))
	workers := runtime.GOMAXPROCS(0)
	if m.Sequential {
		workers = 1
	}
	var wg sync.WaitGroup
	idx := make(chan int, 256)
	var firstErr error
	var mu sync.Mutex
	for w := 0; w < workers; w++ {
		wg.Add(1)
		go func() {
			defer wg.Done()
			for i := range idx {
				var c Case
				if e := json.Unmarshal(lines[i], &c); e != nil {
					mu.Lock()
					if firstErr == nil {
						firstErr = fmt.Errorf("line %d: %v", i+1, e)
					}
					mu.Unlock()
					continue
				}
				o := SafeExec(m, c)
				c["out"] = Norm(o)
				checkNumbers(c["out"])
				if exp, ok := c["exp"]; ok {
					d := Diff(exp, o)
					if len(d) > 0 {
						c["diff"] = d
						diffs[i] = 1
					}
				}
				res[i], _ = json.Marshal(c)
			}
		}()
	}
	for i := range lines {
		idx <- i
	}
	close(idx)
	wg.Wait()
	if firstErr != nil {
		return 0, 0, firstErr
	}
	w := bufio.NewWriterSize(out, 1<<20)
	for i, r := range res {
		w.Write(r)
		w.WriteByte('\n')
		ndiff += diffs[i]
	}
	return len(lines), ndiff, w.Flush()
}

func Main() {
	if len(os.Args) < 3 {
		fmt.Fprintf(os.Stderr, "usage: verifh exec|gen <module> [args]\nmodules: %v\n", Names())
		os.Exit(2)
	}
	cmd, name := os.Args[1], os.Args[2]
	m := Get(name)
	if m == nil {
		fmt.Fprintf(os.Stderr, "unknown module %q; have %v\n", name, Names())
		os.Exit(2)
	}
	switch cmd {
	case "exec": // verifh exec M in.ndjson out.ndjson
		in, err := os.Open(os.Args[3])
		if err != nil {
			fmt.Fprintln(os.Stderr, err)
			os.Exit(2)
		}
		out, err := os.Create(os.Args[4])
		if err != nil {
			fmt.Fprintln(os.Stderr, err)
			os.Exit(2)
		}
		n, nd, err := RunFile(m, in, out)
		out.Close()
		if err != nil {
			fmt.Fprintln(os.Stderr, err)
			os.Exit(2)
		}
		fmt.Printf("{\"cases\": %d, \"diffs\": %d}\n", n, nd)
	case "gen": // verifh gen M seed n out.ndjson
		var seed uint64
		var n int
		fmt.Sscan(os.Args[3], &seed)
		fmt.Sscan(os.Args[4], &n)
		out, err := os.Create(os.Args[5])
		if err != nil {
			fmt.Fprintln(os.Stderr, err)
			os.Exit(2)
		}
		w := bufio.NewWriterSize(out, 1<<20)
		r := rand.New(rand.NewPCG(seed, 0x9e3779b97f4a7c15))
		cnt := 0
		m.Gen(r, n, func(c Case) {
			b, err := json.Marshal(c)
			if err != nil {
				panic(err)
			}
			w.Write(b)
			w.WriteByte('\n')
			cnt++
		})
		w.Flush()
		out.Close()
		fmt.Printf("{\"cases\": %d}\n", cnt)
	default:
		fmt.Fprintln(os.Stderr, "unknown command", cmd)
		os.Exit(2)
	}
}
