// Package legacy links the twelve historical generations of the legacy test schema (old generated code known to the
// runtime only through struct tags and wrapped by internal/impl) into the harness, and records their derived descriptors (C46).
package legacy

import (
	"fmt"
	"hash/fnv"
	"math/rand/v2"
	"strings"

	_ "google.golang.org/protobuf/internal/testprotos/legacy/proto2_20160225_2fc053c5"
	_ "google.golang.org/protobuf/internal/testprotos/legacy/proto2_20160519_a4ab9ec5"
	_ "google.golang.org/protobuf/internal/testprotos/legacy/proto2_20180125_92554152"
	_ "google.golang.org/protobuf/internal/testprotos/legacy/proto2_20180430_b4deda09"
	_ "google.golang.org/protobuf/internal/testprotos/legacy/proto2_20180814_aa810b61"
	_ "google.golang.org/protobuf/internal/testprotos/legacy/proto2_20190205_c823c79e"
	_ "google.golang.org/protobuf/internal/testprotos/legacy/proto3_20160225_2fc053c5"
	_ "google.golang.org/protobuf/internal/testprotos/legacy/proto3_20160519_a4ab9ec5"
	_ "google.golang.org/protobuf/internal/testprotos/legacy/proto3_20180125_92554152"
	_ "google.golang.org/protobuf/internal/testprotos/legacy/proto3_20180430_b4deda09"
	_ "google.golang.org/protobuf/internal/testprotos/legacy/proto3_20180814_aa810b61"
	_ "google.golang.org/protobuf/internal/testprotos/legacy/proto3_20190205_c823c79e"
	"google.golang.org/protobuf/internal/verifh/core"
	_ "google.golang.org/protobuf/internal/verifh/msg"
	"google.golang.org/protobuf/reflect/protoreflect"
	"google.golang.org/protobuf/reflect/protoregistry"
)

// Module "legacydesc": {gen: "proto2_20160225"} -> out {digs: {"<syntax>:<relative name>": digest}, conflicts: []}
// The digest covers everything a descriptor derived from struct tags must reproduce (names, numbers, kinds,
// cardinalities, JSON names, oneofs, map entries, enum values, defaults, required numbers), with the generation's
// package prefix removed, so that all generations of one syntax must agree (validated by FirstUseMemo-style memoisation).
func init() {
	core.Register(&core.Module{Name: "legacydesc", Exec: legacyDesc, Gen: func(r *rand.Rand, n int, emit func(core.Case)) {}})
}

func legacyDesc(c core.Case) core.Case {
	gen := core.Str(c["gen"])
	pkg := "google.golang.org." + gen
	mt, err := protoregistry.GlobalTypes.FindMessageByName(protoreflect.FullName(pkg + ".Message"))
	if err != nil {
		panic("harness: unknown legacy generation " + gen)
	}
	syntax := gen[:6]
	digs := map[string]any{"-": "-"}
	rel := func(n protoreflect.FullName) string { return strings.TrimPrefix(string(n), pkg+".") }
	seen := map[protoreflect.FullName]bool{}
	var walk func(md protoreflect.MessageDescriptor)
	walk = func(md protoreflect.MessageDescriptor) {
		if seen[md.FullName()] || !strings.HasPrefix(string(md.FullName()), pkg+".") {
			return
		}
		seen[md.FullName()] = true
		h := fnv.New64a()
		fmt.Fprint(h, rel(md.FullName()), md.IsMapEntry(), md.Fields().Len(), md.Oneofs().Len())
		for i := 0; i < md.RequiredNumbers().Len(); i++ {
			fmt.Fprint(h, "req", md.RequiredNumbers().Get(i))
		}
		for i := 0; i < md.Fields().Len(); i++ {
			fd := md.Fields().Get(i)
			fmt.Fprint(h, fd.Name(), fd.Number(), fd.Kind(), fd.Cardinality(), fd.JSONName(), fd.HasPresence(), fd.IsPacked(), fd.IsMap(), fd.HasDefault(), fd.Default().String())
			if od := fd.ContainingOneof(); od != nil {
				fmt.Fprint(h, "oneof", od.Name(), od.Index())
			}
			if fd.Message() != nil {
				fmt.Fprint(h, rel(fd.Message().FullName()))
				walk(fd.Message())
			}
			if ed := fd.Enum(); ed != nil {
				fmt.Fprint(h, rel(ed.FullName()))
				for j := 0; j < ed.Values().Len(); j++ {
					fmt.Fprint(h, ed.Values().Get(j).Name(), ed.Values().Get(j).Number())
				}
			}
		}
		digs[syntax+":"+rel(md.FullName())] = fmt.Sprintf("%016x", h.Sum64())
	}
	walk(mt.Descriptor())
	return core.Case{"digs": digs, "conflicts": []any{}, "n": len(digs)}
}
