// Command verifh is the conformance harness: it runs specification-generated cases and seeded
// random cases against the real protobuf-go code.  It is compiled inside the repository module
// (go build -overlay) so that it can reach internal packages.
package main

import (
	"google.golang.org/protobuf/internal/verifh/core"
	_ "google.golang.org/protobuf/internal/verifh/mods"
)

func main() { core.Main() }
