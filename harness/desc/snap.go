package desc

import (
	"fmt"
	"math"
	"strconv"

	"google.golang.org/protobuf/internal/encoding/defval"
	"google.golang.org/protobuf/internal/filedesc"
	"google.golang.org/protobuf/reflect/protoreflect"
	"google.golang.org/protobuf/types/descriptorpb"
)

// A snapshot is the *observation* of every protoreflect accessor of one file descriptor, in the
// canonical order of the abstract file (messages in depth-first pre-order; enums and extensions of the
// file first, then grouped by message).  The specification's Views(file) must equal it.

type EF struct { // resolved edition features as stored by internal/filedesc
	Fp     bool `json:"fp"`
	Lr     bool `json:"lr"`
	Open   bool `json:"open"`
	Packed bool `json:"packed"`
	Utf8   bool `json:"utf8"`
	Delim  bool `json:"delim"`
	JSON   bool `json:"json"`
	Gl     bool `json:"gl"`
	Gs     int  `json:"gs"`
	Ga     int  `json:"ga"`
}

func efOf(e filedesc.EditionFeatures) EF {
	return EF{Fp: e.IsFieldPresence, Lr: e.IsLegacyRequired, Open: e.IsOpenEnum, Packed: e.IsPacked, Utf8: e.IsUTF8Validated,
		Delim: e.IsDelimitedEncoded, JSON: e.IsJSONCompliant, Gl: e.GenerateLegacyUnmarshalJSON, Gs: e.StripEnumPrefix, Ga: e.APILevel}
}

// Base: what every declaration exposes.
type SBase struct {
	Name   string `json:"name"`
	Full   string `json:"full"`
	Pos    int    `json:"pos"`    // i such that the declaration was obtained as list.Get(i)
	Idx    int    `json:"idx"`    // Index()
	ByName int    `json:"byname"` // Index() of list.ByName(Name()), -1 if nil
	Parent string `json:"parent"` // Parent().FullName()
	Depth  int    `json:"depth"`  // number of Parent() steps up to a FileDescriptor (-1: chain does not end at one)
	Root   bool   `json:"root"`   // that descriptor and ParentFile() are this very file, whose Parent() is nil
	Syntax string `json:"syntax"`
	PH     bool   `json:"ph"` // IsPlaceholder
	Opts   string `json:"opts"`
}

type SProbe struct {
	N   int  `json:"n"`
	Has bool `json:"has"`
}
type SNameProbe struct {
	S   string `json:"s"`
	Has bool   `json:"has"`
}

type SOpt struct { // semantic projection of the options message as returned by Options()
	Packed string `json:"packed"`
	Lazy   bool   `json:"lazy"`
	Dep    bool   `json:"dep"`
	MapEnt bool   `json:"mapentry"`
	MSet   bool   `json:"mset"`
	Alias  bool   `json:"alias"`
	Feat   FS     `json:"feat"`
}

type SField struct {
	SBase
	ByNum    int    `json:"bynum"`
	ByJSON   int    `json:"byjson"`
	ByText   int    `json:"bytext"`
	ByJSONLo int    `json:"byjsonlo"` // lookup of the lower-cased JSON name
	ByTextLo int    `json:"bytextlo"`
	Num      int    `json:"num"`
	Card     int    `json:"card"`
	Kind     int    `json:"kind"`
	HJ       bool   `json:"hj"`
	JSON     string `json:"json"`
	Text     string `json:"text"`
	Presence bool   `json:"presence"`
	OptKw    bool   `json:"optkw"`
	Packed   bool   `json:"packed"`
	List     bool   `json:"list"`
	Map      bool   `json:"map"`
	Ext      bool   `json:"ext"`
	Weak     bool   `json:"weak"`
	Lazy     bool   `json:"lazy"`
	MapKey   string `json:"mapkey"` // FullName of MapKey() or ""
	MapVal   string `json:"mapval"`
	HD       bool   `json:"hd"`
	DefValid bool   `json:"defvalid"`
	Def      string `json:"def"`     // Default() in descriptor text form ("" when invalid)
	DefEnum  string `json:"defenum"` // Name of DefaultEnumValue() or ""
	Oneof    int    `json:"oneof"`   // Index()+1 of ContainingOneof() or 0
	OneofN   string `json:"oneofn"`  // its full name
	CMsg     string `json:"cmsg"`    // ContainingMessage().FullName()
	CMsgPH   bool   `json:"cmsgph"`
	Enum     string `json:"enum"`
	EnumPH   bool   `json:"enumph"`
	Msg      string `json:"msg"`
	MsgPH    bool   `json:"msgph"`
	Utf8     bool   `json:"utf8"` // EnforceUTF8()
	EF       EF     `json:"ef"`
	O        SOpt   `json:"o"`
}

type SOneof struct {
	SBase
	Synth   bool  `json:"synth"`
	Members []int `json:"members"` // Index() of each Fields().Get(k)
	Keyed   []int `json:"keyed"`   // for each member: 1 iff ByName/ByNumber/ByJSONName/ByTextName all return that member
	Feat    FS    `json:"feat"`
}

type SMsg struct {
	SBase
	MapEntry bool         `json:"mapentry"`
	MSet     bool         `json:"mset"`
	Vis      int          `json:"vis"`
	Fields   []SField     `json:"fields"`
	Oneofs   []SOneof     `json:"oneofs"`
	Req      []int        `json:"req"`
	ReqP     []SProbe     `json:"reqp"`
	RR       [][2]int     `json:"rr"`
	RRP      []SProbe     `json:"rrp"`
	RN       []string     `json:"rn"`
	RNP      []SNameProbe `json:"rnp"`
	XR       [][2]int     `json:"xr"`
	XRP      []SProbe     `json:"xrp"`
	XROpts   []string     `json:"xropts"`
	NMsgs    int          `json:"nmsgs"`
	NEnums   int          `json:"nenums"`
	NExts    int          `json:"nexts"`
	Miss     bool         `json:"miss"` // every keyed lookup of an absent key returned nil
	EF       EF           `json:"ef"`
	O        SOpt         `json:"o"`
}

type SVal struct {
	SBase
	ByNum int  `json:"bynum"`
	Num   int  `json:"num"`
	Dep   bool `json:"dep"`
}

type SEnum struct {
	SBase
	Closed bool         `json:"closed"`
	Vis    int          `json:"vis"`
	Vals   []SVal       `json:"vals"`
	RR     [][2]int     `json:"rr"`
	RRP    []SProbe     `json:"rrp"`
	RN     []string     `json:"rn"`
	RNP    []SNameProbe `json:"rnp"`
	Miss   bool         `json:"miss"`
	EF     EF           `json:"ef"`
	O      SOpt         `json:"o"`
}

type SMethod struct {
	SBase
	In    string `json:"in"`
	InPH  bool   `json:"inph"`
	Out   string `json:"out"`
	OutPH bool   `json:"outph"`
	CS    bool   `json:"cs"`
	SS    bool   `json:"ss"`
	Dep   bool   `json:"dep"`
}

type SSvc struct {
	SBase
	Dep     bool      `json:"dep"`
	Methods []SMethod `json:"methods"`
	Miss    bool      `json:"miss"`
}

type SDep struct {
	Path   string `json:"path"`
	Public bool   `json:"public"`
	PH     bool   `json:"ph"`
}

type Snapshot struct {
	Path    string   `json:"path"`
	Pkg     string   `json:"pkg"`
	Name    string   `json:"name"`
	Syntax  string   `json:"syntax"`
	Edition int      `json:"edition"`
	Root    bool     `json:"root"` // Parent() == nil, ParentFile() == self, Index() == 0, FullName() == Package()
	Opts    string   `json:"opts"`
	EF      EF       `json:"ef"`
	O       SOpt     `json:"o"`
	Deps    []SDep   `json:"deps"`
	OptDeps []string `json:"optdeps"`
	NMsgs   int      `json:"nmsgs"`
	NEnums  int      `json:"nenums"`
	NExts   int      `json:"nexts"`
	NSvcs   int      `json:"nsvcs"`
	Miss    bool     `json:"miss"`
	Msgs    []SMsg   `json:"msgs"`
	Enums   []SEnum  `json:"enums"`
	Exts    []SField `json:"exts"`
	Svcs    []SSvc   `json:"svcs"`
}

const absentName = "zz_absent_zz"

func idxOf(d protoreflect.Descriptor) int {
	if d == nil {
		return -1
	}
	return d.Index()
}

type snapper struct {
	file protoreflect.FileDescriptor
	rev  bool // reversed traversal (lazy-initialisation order independence, C37)
}

func (s *snapper) base(d protoreflect.Descriptor, pos int, byName protoreflect.Descriptor) SBase {
	b := SBase{Name: string(d.Name()), Full: string(d.FullName()), Pos: pos, Idx: d.Index(), ByName: -1, PH: d.IsPlaceholder(), Syntax: d.Syntax().String()}
	if byName != nil {
		b.ByName = byName.Index()
	}
	if p := d.Parent(); p != nil {
		b.Parent = string(p.FullName())
	}
	// parent chain
	depth, cur := 0, d
	for cur != nil && depth < 100 {
		if fd, ok := cur.(protoreflect.FileDescriptor); ok {
			b.Root = fd == s.file && fd.Parent() == nil && d.ParentFile() == s.file
			break
		}
		cur = cur.Parent()
		depth++
	}
	if cur == nil || depth >= 100 {
		depth = -1
	}
	b.Depth = depth
	return b
}

func clamp(x int64) int {
	if x > math.MaxInt32 {
		return math.MaxInt32
	}
	if x < -math.MaxInt32 {
		return -math.MaxInt32
	}
	return int(x)
}

func probePoints(lo, hi int) []int {
	l, h := int64(lo), int64(hi)
	return []int{clamp(l - 1), clamp(l), clamp(l + 1), clamp(h - 1), clamp(h), clamp(h + 1)}
}

func semOpts(m protoreflect.ProtoMessage) SOpt {
	var o SOpt
	switch x := m.(type) {
	case *descriptorpb.FileOptions:
		if x != nil {
			o.Dep, o.Feat = x.GetDeprecated(), abstractFS(x.Features)
		}
	case *descriptorpb.MessageOptions:
		if x != nil {
			o.Dep, o.Feat, o.MapEnt, o.MSet = x.GetDeprecated(), abstractFS(x.Features), x.GetMapEntry(), x.GetMessageSetWireFormat()
		}
	case *descriptorpb.FieldOptions:
		if x != nil {
			o.Dep, o.Feat, o.Packed, o.Lazy = x.GetDeprecated(), abstractFS(x.Features), tri(x.Packed), x.GetLazy()
		}
	case *descriptorpb.EnumOptions:
		if x != nil {
			o.Dep, o.Feat, o.Alias = x.GetDeprecated(), abstractFS(x.Features), x.GetAllowAlias()
		}
	}
	return o
}

func fmtDefault(fd protoreflect.FieldDescriptor) (valid bool, s string) {
	v := fd.Default()
	if !v.IsValid() {
		return false, ""
	}
	if fd.Kind() == 0 && fd.DefaultEnumValue() != nil {
		// unknown kind (`type` omitted, unresolvable type tolerated): the default is an enum value taken on trust
		return true, strconv.Itoa(int(v.Enum()))
	}
	switch fd.Kind() {
	case protoreflect.EnumKind:
		return true, strconv.Itoa(int(v.Enum()))
	case protoreflect.StringKind:
		return true, v.String()
	case protoreflect.BoolKind:
		if v.Bool() {
			return true, "true"
		}
		return true, "false"
	case protoreflect.Int32Kind, protoreflect.Sint32Kind, protoreflect.Sfixed32Kind, protoreflect.Int64Kind, protoreflect.Sint64Kind, protoreflect.Sfixed64Kind:
		return true, strconv.FormatInt(v.Int(), 10)
	case protoreflect.Uint32Kind, protoreflect.Fixed32Kind, protoreflect.Uint64Kind, protoreflect.Fixed64Kind:
		return true, strconv.FormatUint(v.Uint(), 10)
	default:
		// bytes, float, double: the descriptor text form (the digits/escapes themselves are C39's subject)
		t, err := defval.Marshal(v, nil, fd.Kind(), defval.Descriptor)
		if err != nil {
			return true, "!" + err.Error()
		}
		return true, t
	}
}

func lower(s string) string {
	b := []byte(s)
	for i, c := range b {
		if 'A' <= c && c <= 'Z' {
			b[i] = c + 'a' - 'A'
		}
	}
	return string(b)
}

func (s *snapper) field(fd protoreflect.FieldDescriptor, pos int, fields protoreflect.FieldDescriptors, byName protoreflect.Descriptor) SField {
	f := SField{SBase: s.base(fd, pos, byName), ByNum: -1, ByJSON: -1, ByText: -1, ByJSONLo: -1, ByTextLo: -1}
	f.Num, f.Card, f.Kind = int(fd.Number()), int(fd.Cardinality()), int(fd.Kind())
	f.HJ, f.JSON, f.Text = fd.HasJSONName(), fd.JSONName(), fd.TextName()
	if fields != nil {
		f.ByNum = idxOf(fields.ByNumber(fd.Number()))
		f.ByJSON = idxOf(fields.ByJSONName(fd.JSONName()))
		f.ByText = idxOf(fields.ByTextName(fd.TextName()))
		f.ByJSONLo = idxOf(fields.ByJSONName(lower(fd.JSONName())))
		f.ByTextLo = idxOf(fields.ByTextName(lower(fd.TextName())))
	}
	f.Presence, f.OptKw, f.Packed, f.List, f.Map = fd.HasPresence(), fd.HasOptionalKeyword(), fd.IsPacked(), fd.IsList(), fd.IsMap()
	f.Ext, f.Weak = fd.IsExtension(), fd.IsWeak()
	if l, ok := fd.(interface{ IsLazy() bool }); ok {
		f.Lazy = l.IsLazy()
	}
	if k := fd.MapKey(); k != nil {
		f.MapKey = string(k.FullName())
	}
	if v := fd.MapValue(); v != nil {
		f.MapVal = string(v.FullName())
	}
	f.HD = fd.HasDefault()
	f.DefValid, f.Def = fmtDefault(fd)
	if ev := fd.DefaultEnumValue(); ev != nil {
		f.DefEnum = string(ev.Name())
	}
	if o := fd.ContainingOneof(); o != nil {
		f.Oneof, f.OneofN = o.Index()+1, string(o.FullName())
	}
	if m := fd.ContainingMessage(); m != nil {
		f.CMsg, f.CMsgPH = string(m.FullName()), m.IsPlaceholder()
	}
	if e := fd.Enum(); e != nil {
		f.Enum, f.EnumPH = string(e.FullName()), e.IsPlaceholder()
	}
	if m := fd.Message(); m != nil {
		f.Msg, f.MsgPH = string(m.FullName()), m.IsPlaceholder()
	}
	if u, ok := fd.(interface{ EnforceUTF8() bool }); ok {
		f.Utf8 = u.EnforceUTF8()
	}
	switch x := fd.(type) {
	case *filedesc.Field:
		f.EF = efOf(x.L1.EditionFeatures)
	case *filedesc.Extension:
		f.EF = efOf(x.L1.EditionFeatures)
	}
	f.Opts = optHex(fd.Options())
	f.O = semOpts(fd.Options())
	return f
}

func (s *snapper) enum(ed protoreflect.EnumDescriptor, pos int, byName protoreflect.Descriptor) SEnum {
	e := SEnum{SBase: s.base(ed, pos, byName), Closed: ed.IsClosed(), Vals: []SVal{}, RR: [][2]int{}, RRP: []SProbe{}, RN: []string{}, RNP: []SNameProbe{}}
	if x, ok := ed.(*filedesc.Enum); ok {
		e.EF = efOf(x.L1.EditionFeatures)
		e.Vis = int(x.Visibility())
	}
	e.Opts, e.O = optHex(ed.Options()), semOpts(ed.Options())
	vs := ed.Values()
	for i := 0; i < vs.Len(); i++ {
		k := i
		if s.rev {
			k = vs.Len() - 1 - i
		}
		v := vs.Get(k)
		sv := SVal{SBase: s.base(v, k, vs.ByName(v.Name())), ByNum: idxOf(vs.ByNumber(v.Number())), Num: int(v.Number())}
		sv.Opts = optHex(v.Options())
		if o, ok := v.Options().(*descriptorpb.EnumValueOptions); ok && o != nil {
			sv.Dep = o.GetDeprecated()
		}
		e.Vals = append(e.Vals, sv)
	}
	if s.rev {
		for i, j := 0, len(e.Vals)-1; i < j; i, j = i+1, j-1 {
			e.Vals[i], e.Vals[j] = e.Vals[j], e.Vals[i]
		}
	}
	rr := ed.ReservedRanges()
	for i := 0; i < rr.Len(); i++ {
		r := rr.Get(i)
		e.RR = append(e.RR, [2]int{int(r[0]), int(r[1])})
		for _, n := range probePoints(int(r[0]), int(r[1])) {
			e.RRP = append(e.RRP, SProbe{n, rr.Has(protoreflect.EnumNumber(n))})
		}
	}
	rn := ed.ReservedNames()
	for i := 0; i < rn.Len(); i++ {
		e.RN = append(e.RN, string(rn.Get(i)))
		e.RNP = append(e.RNP, SNameProbe{string(rn.Get(i)), rn.Has(rn.Get(i))})
	}
	for i := 0; i < vs.Len(); i++ {
		e.RNP = append(e.RNP, SNameProbe{string(vs.Get(i).Name()), rn.Has(vs.Get(i).Name())})
	}
	// a number that is neither a value nor inside a listed reserved range
	absent := protoreflect.EnumNumber(-1234567)
	for _, c := range []protoreflect.EnumNumber{-1234567, 1234567, 7654321, -7654321, 2147483000, -2147483000, 31, -31} {
		free := true
		for i := 0; i < rr.Len(); i++ {
			if r := rr.Get(i); r[0] <= c && c <= r[1] {
				free = false
			}
		}
		for i := 0; i < vs.Len(); i++ {
			if vs.Get(i).Number() == c {
				free = false
			}
		}
		if free {
			absent = c
			break
		}
	}
	e.Miss = vs.ByName(absentName) == nil && vs.ByNumber(absent) == nil && !rn.Has(absentName) && !rr.Has(absent)
	return e
}

func (s *snapper) msg(md protoreflect.MessageDescriptor, pos int, byName protoreflect.Descriptor) SMsg {
	m := SMsg{SBase: s.base(md, pos, byName), MapEntry: md.IsMapEntry(), Fields: []SField{}, Oneofs: []SOneof{}, Req: []int{}, ReqP: []SProbe{},
		RR: [][2]int{}, RRP: []SProbe{}, RN: []string{}, RNP: []SNameProbe{}, XR: [][2]int{}, XRP: []SProbe{}, XROpts: []string{}}
	if x, ok := md.(*filedesc.Message); ok {
		m.EF = efOf(x.L1.EditionFeatures)
		m.MSet = x.IsMessageSet()
		m.Vis = int(x.Visibility())
	}
	m.Opts, m.O = optHex(md.Options()), semOpts(md.Options())
	m.NMsgs, m.NEnums, m.NExts = md.Messages().Len(), md.Enums().Len(), md.Extensions().Len()
	fs := md.Fields()
	for i := 0; i < fs.Len(); i++ {
		k := i
		if s.rev {
			k = fs.Len() - 1 - i
		}
		fd := fs.Get(k)
		m.Fields = append(m.Fields, s.field(fd, k, fs, fs.ByName(fd.Name())))
	}
	if s.rev {
		for i, j := 0, len(m.Fields)-1; i < j; i, j = i+1, j-1 {
			m.Fields[i], m.Fields[j] = m.Fields[j], m.Fields[i]
		}
	}
	os := md.Oneofs()
	for i := 0; i < os.Len(); i++ {
		od := os.Get(i)
		so := SOneof{SBase: s.base(od, i, os.ByName(od.Name())), Synth: od.IsSynthetic(), Members: []int{}, Keyed: []int{}}
		so.Opts = optHex(od.Options())
		if o, ok := od.Options().(*descriptorpb.OneofOptions); ok && o != nil {
			so.Feat = abstractFS(o.Features)
		}
		ofs := od.Fields()
		for k := 0; k < ofs.Len(); k++ {
			f := ofs.Get(k)
			so.Members = append(so.Members, f.Index())
			ok := ofs.ByName(f.Name()) == f && ofs.ByNumber(f.Number()) == f && ofs.ByJSONName(f.JSONName()) == f && ofs.ByTextName(f.TextName()) == f && f.ContainingOneof() == od
			if ok {
				so.Keyed = append(so.Keyed, 1)
			} else {
				so.Keyed = append(so.Keyed, 0)
			}
		}
		m.Oneofs = append(m.Oneofs, so)
	}
	req := md.RequiredNumbers()
	for i := 0; i < req.Len(); i++ {
		m.Req = append(m.Req, int(req.Get(i)))
	}
	for i := 0; i < fs.Len(); i++ {
		n := fs.Get(i).Number()
		m.ReqP = append(m.ReqP, SProbe{int(n), req.Has(n)})
	}
	rr := md.ReservedRanges()
	for i := 0; i < rr.Len(); i++ {
		r := rr.Get(i)
		m.RR = append(m.RR, [2]int{int(r[0]), int(r[1])})
		for _, n := range probePoints(int(r[0]), int(r[1])) {
			m.RRP = append(m.RRP, SProbe{n, rr.Has(protoreflect.FieldNumber(n))})
		}
	}
	xr := md.ExtensionRanges()
	for i := 0; i < xr.Len(); i++ {
		r := xr.Get(i)
		m.XR = append(m.XR, [2]int{int(r[0]), int(r[1])})
		for _, n := range probePoints(int(r[0]), int(r[1])) {
			m.XRP = append(m.XRP, SProbe{n, xr.Has(protoreflect.FieldNumber(n))})
		}
		m.XROpts = append(m.XROpts, optHex(md.ExtensionRangeOptions(i)))
	}
	rn := md.ReservedNames()
	for i := 0; i < rn.Len(); i++ {
		m.RN = append(m.RN, string(rn.Get(i)))
		m.RNP = append(m.RNP, SNameProbe{string(rn.Get(i)), rn.Has(rn.Get(i))})
	}
	for i := 0; i < fs.Len(); i++ {
		m.RNP = append(m.RNP, SNameProbe{string(fs.Get(i).Name()), rn.Has(fs.Get(i).Name())})
	}
	m.Miss = fs.ByName(absentName) == nil && fs.ByNumber(536870900) == nil && fs.ByJSONName(absentName) == nil && fs.ByTextName(absentName) == nil &&
		os.ByName(absentName) == nil && md.Messages().ByName(absentName) == nil && md.Enums().ByName(absentName) == nil && md.Extensions().ByName(absentName) == nil &&
		!rn.Has(absentName) && !req.Has(536870900)
	return m
}

// Snap observes every accessor of fd.
func Snap(fd protoreflect.FileDescriptor, rev bool) *Snapshot {
	s := &snapper{file: fd, rev: rev}
	out := &Snapshot{Path: fd.Path(), Pkg: string(fd.Package()), Name: string(fd.Name()), Syntax: fd.Syntax().String(),
		Deps: []SDep{}, OptDeps: []string{}, Msgs: []SMsg{}, Enums: []SEnum{}, Exts: []SField{}, Svcs: []SSvc{}}
	if x, ok := fd.(*filedesc.File); ok {
		if fd.Syntax() == protoreflect.Editions {
			out.Edition = int(x.Edition())
		}
		out.EF = efOf(x.L1.EditionFeatures)
	}
	out.Root = fd.Parent() == nil && fd.ParentFile() == fd && fd.Index() == 0 && fd.FullName() == fd.Package() && !fd.IsPlaceholder()
	type msgAt struct {
		md protoreflect.MessageDescriptor
	}
	var order []protoreflect.MessageDescriptor
	var walk func(ms protoreflect.MessageDescriptors)
	walk = func(ms protoreflect.MessageDescriptors) {
		for i := 0; i < ms.Len(); i++ {
			md := ms.Get(i)
			order = append(order, md)
			out.Msgs = append(out.Msgs, SMsg{}) // filled below (possibly in reverse order)
			walk(md.Messages())
		}
	}
	first := func() {
		out.Opts, out.O = optHex(fd.Options()), semOpts(fd.Options())
		imps := fd.Imports()
		for i := 0; i < imps.Len(); i++ {
			imp := imps.Get(i)
			out.Deps = append(out.Deps, SDep{Path: imp.Path(), Public: imp.IsPublic, PH: imp.IsPlaceholder()})
		}
		if oi, ok := fd.(interface {
			OptionImports() protoreflect.FileImports
		}); ok {
			ois := oi.OptionImports()
			for i := 0; i < ois.Len(); i++ {
				out.OptDeps = append(out.OptDeps, ois.Get(i).Path())
			}
		}
	}
	if !rev {
		first()
	}
	out.NMsgs, out.NEnums, out.NExts, out.NSvcs = fd.Messages().Len(), fd.Enums().Len(), fd.Extensions().Len(), fd.Services().Len()
	walk(fd.Messages())
	posOf := func(md protoreflect.MessageDescriptor) (int, protoreflect.Descriptor) {
		var sib protoreflect.MessageDescriptors
		if p, ok := md.Parent().(protoreflect.MessageDescriptor); ok {
			sib = p.Messages()
		} else {
			sib = fd.Messages()
		}
		for i := 0; i < sib.Len(); i++ {
			if sib.Get(i) == md {
				return i, sib.ByName(md.Name())
			}
		}
		return -1, nil
	}
	fillMsgs := func() {
		for i := range order {
			k := i
			if rev {
				k = len(order) - 1 - i
			}
			pos, bn := posOf(order[k])
			out.Msgs[k] = s.msg(order[k], pos, bn)
		}
	}
	enumsOf := func(es protoreflect.EnumDescriptors) {
		for i := 0; i < es.Len(); i++ {
			out.Enums = append(out.Enums, s.enum(es.Get(i), i, es.ByName(es.Get(i).Name())))
		}
	}
	extsOf := func(xs protoreflect.ExtensionDescriptors) {
		for i := 0; i < xs.Len(); i++ {
			out.Exts = append(out.Exts, s.field(xs.Get(i), i, nil, xs.ByName(xs.Get(i).Name())))
		}
	}
	fillRest := func() {
		enumsOf(fd.Enums())
		extsOf(fd.Extensions())
		for _, md := range order {
			enumsOf(md.Enums())
			extsOf(md.Extensions())
		}
		svcs := fd.Services()
		for i := 0; i < svcs.Len(); i++ {
			sd := svcs.Get(i)
			ss := SSvc{SBase: s.base(sd, i, svcs.ByName(sd.Name())), Methods: []SMethod{}}
			ss.Opts = optHex(sd.Options())
			if o, ok := sd.Options().(*descriptorpb.ServiceOptions); ok && o != nil {
				ss.Dep = o.GetDeprecated()
			}
			ms := sd.Methods()
			for j := 0; j < ms.Len(); j++ {
				md := ms.Get(j)
				sm := SMethod{SBase: s.base(md, j, ms.ByName(md.Name())), CS: md.IsStreamingClient(), SS: md.IsStreamingServer()}
				if in := md.Input(); in != nil {
					sm.In, sm.InPH = string(in.FullName()), in.IsPlaceholder()
				}
				if o := md.Output(); o != nil {
					sm.Out, sm.OutPH = string(o.FullName()), o.IsPlaceholder()
				}
				sm.Opts = optHex(md.Options())
				if o, ok := md.Options().(*descriptorpb.MethodOptions); ok && o != nil {
					sm.Dep = o.GetDeprecated()
				}
				ss.Methods = append(ss.Methods, sm)
			}
			ss.Miss = ms.ByName(absentName) == nil
			out.Svcs = append(out.Svcs, ss)
		}
	}
	if rev {
		// extensions and enums (level-1 data) first, then messages backwards, file options last
		fillRest()
		fillMsgs()
		first()
	} else {
		fillMsgs()
		fillRest()
	}
	out.Miss = fd.Messages().ByName(absentName) == nil && fd.Enums().ByName(absentName) == nil && fd.Extensions().ByName(absentName) == nil && fd.Services().ByName(absentName) == nil
	return out
}

func (s *Snapshot) String() string { return fmt.Sprintf("snapshot(%s)", s.Path) }
