package desc

import (
	"encoding/hex"
	"fmt"
	"math/rand/v2"
	"reflect"
	"strings"

	"google.golang.org/protobuf/encoding/protojson"
	"google.golang.org/protobuf/encoding/prototext"
	"google.golang.org/protobuf/encoding/protowire"
	"google.golang.org/protobuf/internal/verifh/core"
	"google.golang.org/protobuf/proto"
	"google.golang.org/protobuf/reflect/protoreflect"
	"google.golang.org/protobuf/reflect/protoregistry"
	"google.golang.org/protobuf/types/dynamicpb"
)

// C38, second half, on *schemas* instead of the fixed corpus of generated pairs:
//
//	{op:"xlate", file: AF (proto2 | proto3), xfile: AF (its editions translation, SchemaXlate!Translate),
//	 tgt: {loc, i} (the input message: msgs[i] of the file, or the imported imps[i]),
//	 items: [{x, j, p}] (occurrences of string fields msgs[i].fields[j] / string extensions exts[j] with payload bytes p)}
//
// When the input message is an (imported) options message of descriptor.proto, the generated Go type is observed as well.
//
// Both files are built by protodesc.NewFile against the same environment, the input is rendered to wire bytes and
// pushed through dynamic messages of both: out = {built, adec, aenc, bdec, benc, (agdec, agenc, bgdec, bgenc,) same, o*}.

type xItem struct {
	x bool
	j int
	p []byte
}

func preorderMsgs(fd protoreflect.FileDescriptor) []protoreflect.MessageDescriptor {
	var order []protoreflect.MessageDescriptor
	var walk func(ms protoreflect.MessageDescriptors)
	walk = func(ms protoreflect.MessageDescriptors) {
		for i := 0; i < ms.Len(); i++ {
			order = append(order, ms.Get(i))
			walk(ms.Get(i).Messages())
		}
	}
	walk(fd.Messages())
	return order
}

// abstractExts lists the extensions in the order of the abstract file: the file's, then each message's (pre-order).
func abstractExts(fd protoreflect.FileDescriptor) []protoreflect.ExtensionDescriptor {
	var xs []protoreflect.ExtensionDescriptor
	add := func(l protoreflect.ExtensionDescriptors) {
		for i := 0; i < l.Len(); i++ {
			xs = append(xs, l.Get(i))
		}
	}
	add(fd.Extensions())
	for _, md := range preorderMsgs(fd) {
		add(md.Extensions())
	}
	return xs
}

// xside is one of the two files, built.
type xside struct {
	md    protoreflect.MessageDescriptor
	types *protoregistry.Types
	fds   []protoreflect.FieldDescriptor // the field descriptor of every item
}

func buildSide(f *AFile, env *protoregistry.Files, loc bool, ti int, items []xItem) (*xside, string) {
	fd, err, pan := newFile(Render(f), false, env)
	if pan != "" {
		return nil, "panic: " + pan
	}
	if err != nil {
		return nil, errClass(err.Error())
	}
	s := &xside{types: new(protoregistry.Types)}
	msgs := preorderMsgs(fd)
	if loc {
		if ti < 1 || ti > len(msgs) {
			harnessBug("xlate: target message %d of %d", ti, len(msgs))
		}
		s.md = msgs[ti-1]
	} else {
		if ti < 1 || ti > len(f.Imps) {
			harnessBug("xlate: target import %d of %d", ti, len(f.Imps))
		}
		d, err := env.FindDescriptorByName(protoreflect.FullName(f.Imps[ti-1].Full))
		md, ok := d.(protoreflect.MessageDescriptor)
		if err != nil || !ok {
			harnessBug("xlate: imported target %q: %v", f.Imps[ti-1].Full, err)
		}
		s.md = md
	}
	xs := abstractExts(fd)
	xts := make([]protoreflect.ExtensionType, len(xs))
	for i, xd := range xs {
		xts[i] = dynamicpb.NewExtensionType(xd)
		if xd.ContainingMessage().FullName() == s.md.FullName() {
			if err := s.types.RegisterExtension(xts[i]); err != nil {
				// (two extensions of one number: not a shape the generators produce)
				harnessBug("xlate: register extension %s: %v", xd.FullName(), err)
			}
		}
	}
	for _, it := range items {
		if it.x {
			if it.j < 1 || it.j > len(xts) {
				harnessBug("xlate: extension %d of %d", it.j, len(xts))
			}
			s.fds = append(s.fds, xts[it.j-1].TypeDescriptor())
		} else {
			if !loc || it.j < 1 || it.j > s.md.Fields().Len() {
				harnessBug("xlate: field %d of %d", it.j, s.md.Fields().Len())
			}
			s.fds = append(s.fds, s.md.Fields().Get(it.j-1))
		}
	}
	return s, ""
}

// observe pushes the input through messages made by newMsg (dynamic, or the generated type of a linked message).
func (s *xside) observe(items []xItem, newMsg func() proto.Message) (o map[string]any) {
	defer func() {
		if x := recover(); x != nil {
			o = map[string]any{"panic": fmt.Sprint(x)}
		}
	}()
	var b []byte
	for k, it := range items {
		b = protowire.AppendTag(b, s.fds[k].Number(), protowire.BytesType)
		b = protowire.AppendBytes(b, it.p)
	}
	o = map[string]any{"in": hex.EncodeToString(b)}
	// decode
	m := newMsg()
	err := proto.UnmarshalOptions{AllowPartial: true, Resolver: s.types}.Unmarshal(b, m)
	o["dec"] = err == nil
	if err != nil {
		o["utf8err"] = strings.Contains(err.Error(), "invalid UTF-8")
	} else {
		det, err := proto.MarshalOptions{Deterministic: true, AllowPartial: true}.Marshal(m)
		o["det"], o["deterr"] = hex.EncodeToString(det), err != nil
		o["size"] = proto.Size(m)
		o["init"] = proto.CheckInitialized(m) == nil
		js, err := protojson.MarshalOptions{UseEnumNumbers: true, AllowPartial: true}.Marshal(m)
		o["jsonok"] = err == nil
		if err == nil {
			o["json"] = canonJSON(js)
			y := newMsg()
			err := protojson.UnmarshalOptions{AllowPartial: true, Resolver: s.types}.Unmarshal(js, y)
			o["jsonrt"] = err == nil && proto.Equal(m, y)
		}
		tx, err := prototext.MarshalOptions{AllowPartial: true}.Marshal(m)
		o["textok"] = err == nil
		if err == nil {
			y := newMsg()
			err := prototext.UnmarshalOptions{AllowPartial: true, Resolver: s.types}.Unmarshal(tx, y)
			o["textrt"] = err == nil && proto.Equal(m, y)
		}
	}
	// encode: the message holding the given values, built through reflection
	m2 := newMsg().ProtoReflect()
	for k, it := range items {
		fd := s.fds[k]
		if fd.IsList() {
			m2.Mutable(fd).List().Append(protoreflect.ValueOfString(string(it.p)))
		} else {
			m2.Set(fd, protoreflect.ValueOfString(string(it.p)))
		}
	}
	enc, err := proto.MarshalOptions{Deterministic: true, AllowPartial: true}.Marshal(m2.Interface())
	o["enc"] = err == nil
	if err == nil {
		o["encb"] = hex.EncodeToString(enc)
	}
	return o
}

// generatedType: the input message is a message linked into this binary (an options message of descriptor.proto) and
// the environment hands out that very descriptor: the generated type with its table-driven codec can be observed too.
func (s *xside) generatedType() protoreflect.MessageType {
	mt, err := protoregistry.GlobalTypes.FindMessageByName(s.md.FullName())
	if err != nil || mt.Descriptor() != s.md {
		return nil
	}
	return mt
}

func xItems(v any) []xItem {
	var items []xItem
	for _, x := range core.List(v) {
		m := core.Map(x)
		items = append(items, xItem{x: core.Bool(m["x"]), j: core.Int(m["j"]), p: core.Bytes(m["p"])})
	}
	return items
}

func execXlate(c core.Case, out core.Case) {
	f, g := FileFromAny(c["file"]), FileFromAny(c["xfile"])
	tgt := core.Map(c["tgt"])
	loc, ti := core.Bool(tgt["loc"]), core.Int(tgt["i"])
	items := xItems(c["items"])
	// indices into the abstract files are only meaningful if the files are in canonical form
	for _, af := range []*AFile{f, g} {
		ref := Abstract(Render(af))
		ref.Imps, ref.Legacy = af.Imps, af.Legacy
		if !sameAny(ToAny(ref), ToAny(af)) {
			harnessBug("xlate: Abstract(Render(f)) differs from f (abstract file not canonical?)\n f  = %v\n f' = %v", core.Norm(ToAny(af)), core.Norm(ToAny(ref)))
		}
	}
	env := synthEnv(f)
	a, erra := buildSide(f, env, loc, ti, items)
	b, errb := buildSide(g, env, loc, ti, items)
	out["built"] = a != nil && b != nil
	if a == nil || b == nil {
		out["erra"], out["errb"] = erra, errb
		return
	}
	dyn := func(s *xside) func() proto.Message {
		return func() proto.Message { return dynamicpb.NewMessage(s.md) }
	}
	obs := map[string]map[string]any{"a": a.observe(items, dyn(a)), "b": b.observe(items, dyn(b))}
	// option messages: also as the generated Go type (table-driven codec with dynamic extension types)
	if !loc && f.Imps[ti-1].File == descriptorPath {
		ga, gb := a.generatedType(), b.generatedType()
		if ga == nil || gb == nil {
			harnessBug("xlate: %s is not linked as a generated type from the environment's descriptor", a.md.FullName())
		}
		obs["ag"] = a.observe(items, func() proto.Message { return ga.New().Interface() })
		obs["bg"] = b.observe(items, func() proto.Message { return gb.New().Interface() })
	}
	for _, o := range obs {
		if p, ok := o["panic"]; ok {
			out["panic"] = p
			return
		}
	}
	same := true
	for k, o := range obs {
		out[k+"dec"], out[k+"enc"] = o["dec"], o["enc"]
		out["o"+k] = o // diagnostics
		if k[0] == 'a' {
			same = same && reflect.DeepEqual(core.Norm(o), core.Norm(obs["b"+k[1:]]))
		}
	}
	out["same"] = same
}

// ---- seeded generator

// translateAF is the generator's rendering of SchemaXlate!Translate (the specification re-derives the translation of
// every recorded case and refuses the event if the two differ).
func translateAF(f0 *AFile) *AFile {
	f := FileFromAny(core.Norm(ToAny(f0)))
	proto3 := f.Syntax == "proto3"
	f.Syntax, f.Edition = "editions", 1000
	if proto3 {
		f.Feat = FS{Fp: "IMPLICIT"}
	} else {
		f.Feat = FS{Et: "CLOSED", Rfe: "EXPANDED", Utf8: "NONE", Jf: "LEGACY_BEST_EFFORT"}
	}
	field := func(x *AField) {
		if x.Label == 2 {
			x.Label, x.Feat.Fp = 1, "LEGACY_REQUIRED"
		}
		if x.Type == 10 {
			x.Type, x.Feat.Me = 11, "DELIMITED"
		}
		switch x.Packed {
		case "t":
			x.Packed, x.Feat.Rfe = "", "PACKED"
		case "f":
			x.Packed, x.Feat.Rfe = "", "EXPANDED"
		}
		if x.P3Opt {
			x.P3Opt, x.Oneof, x.Feat.Fp = false, 0, "EXPLICIT"
		}
	}
	for i := range f.Msgs {
		m := &f.Msgs[i]
		// synthetic oneofs (judged on the original fields)
		members := map[int][]int{}
		for j, x := range m.Fields {
			members[x.Oneof] = append(members[x.Oneof], j)
		}
		real := []AOneof{}
		for k := range m.Oneofs {
			mem := members[k+1]
			synth := proto3 && len(mem) == 1 && m.Fields[mem[0]].P3Opt
			if !synth {
				real = append(real, m.Oneofs[k])
			}
		}
		m.Oneofs = real
		for j := range m.Fields {
			field(&m.Fields[j])
		}
	}
	for i := range f.Exts {
		field(&f.Exts[i])
	}
	return f
}

var xPayloads = [][]byte{{}, {'a'}, []byte("hello"), {0xc3, 0xa9}, {0xe2, 0x82, 0xac}, {0xf0, 0x9f, 0x98, 0x80},
	{0xff}, {0xc3}, {0x80}, {0xc0, 0x80}, {'a', 0xff}, {0xed, 0xa0, 0x80}, {0xe2, 0x82}}

func genXlate(r *rand.Rand, n int, emit func(core.Case)) {
	for i := 0; i < n; {
		f := GenFile(r)
		if f.Syntax != "proto2" && f.Syntax != "proto3" {
			continue
		}
		// a proto3 file can only extend option messages: give some of them string options
		if f.Syntax == "proto3" && r.IntN(2) == 0 {
			f.Deps = append(f.Deps, ADep{Path: "google/protobuf/descriptor.proto"})
			f.Imps = append(f.Imps, AImp{Full: "google.protobuf.MessageOptions", K: "m", File: "google/protobuf/descriptor.proto", Vis: true,
				Vals: []AVal{}, XR: [][2]int{{1000, 536870912}}})
			for k := 0; k < 1+r.IntN(2); k++ {
				x := AField{Name: fmt.Sprintf("opt%d", k+1), Num: 50001 + k, Label: []int{1, 3}[r.IntN(2)], Type: 9, Extendee: ".google.protobuf.MessageOptions"}
				if x.Label == 1 && r.IntN(3) == 0 {
					x.P3Opt = true
				}
				f.Exts = append(f.Exts, x)
			}
		}
		// more strings among the extensions
		for k := range f.Exts {
			if x := &f.Exts[k]; x.Type != 9 && r.IntN(2) == 0 {
				x.Type, x.TName, x.HD, x.Def, x.Packed, x.Lazy = 9, "", false, "", "", false
			}
		}
		// input messages: local plain messages and imported extendees, with their string fields / extensions
		type cand struct {
			loc   bool
			i     int
			items []xItem
		}
		var cands []cand
		full := make([]string, len(f.Msgs))
		for k, m := range f.Msgs {
			if m.Parent == 0 {
				full[k] = join(f.Pkg, m.Name)
			} else {
				full[k] = join(full[m.Parent-1], m.Name)
			}
		}
		extsOf := func(name string) []xItem {
			var its []xItem
			for k, x := range f.Exts {
				if x.Type == 9 && x.Extendee == "."+name {
					its = append(its, xItem{x: true, j: k + 1})
				}
			}
			return its
		}
		for k, m := range f.Msgs {
			if m.MapEntry {
				continue
			}
			var its []xItem
			for j, x := range m.Fields {
				if x.Type == 9 {
					its = append(its, xItem{j: j + 1})
				}
			}
			its = append(its, extsOf(full[k])...)
			if len(its) > 0 {
				cands = append(cands, cand{true, k + 1, its})
			}
		}
		for k, imp := range f.Imps {
			if its := extsOf(imp.Full); imp.K == "m" && len(its) > 0 {
				cands = append(cands, cand{false, k + 1, its})
			}
		}
		if len(cands) == 0 {
			continue
		}
		// extension-bearing inputs first choice half of the time (the rarer shape)
		c := cands[r.IntN(len(cands))]
		for tries := 0; tries < 4 && r.IntN(2) == 0; tries++ {
			has := false
			for _, it := range c.items {
				has = has || it.x
			}
			if has {
				break
			}
			c = cands[r.IntN(len(cands))]
		}
		var items []any
		for k := 1 + r.IntN(3); k > 0; k-- {
			it := c.items[r.IntN(len(c.items))]
			items = append(items, map[string]any{"x": it.x, "j": it.j, "p": core.B(xPayloads[r.IntN(len(xPayloads))])})
		}
		emit(core.Case{"op": "xlate", "file": ToAny(f), "xfile": ToAny(translateAF(f)), "tgt": map[string]any{"loc": c.loc, "i": c.i}, "items": items})
		i++
	}
}
