package desc

import (
	"fmt"
	"math/rand/v2"
	"os"
	"reflect"
	"sort"
	"strings"

	"google.golang.org/protobuf/internal/filedesc"
	"google.golang.org/protobuf/internal/flags"
	"google.golang.org/protobuf/internal/verifh/core"
	"google.golang.org/protobuf/proto"
	"google.golang.org/protobuf/reflect/protodesc"
	"google.golang.org/protobuf/reflect/protoreflect"
	"google.golang.org/protobuf/reflect/protoregistry"
	"google.golang.org/protobuf/types/descriptorpb"
)

// Module "desc".
//
//	{op:"file", file: AF, allow, want:[...]}        one abstract file through protodesc.NewFile / ToFileDescriptorProto / filedesc.Builder
//	{op:"linked", path, allow, want:[...]}          one file linked into this binary (its AF is logged as out.file)
//	{op:"fuzz", file: AF, mseed, n}                 n random reflective edits of Render(file), then NewFile (both AllowUnresolvable settings)
//	{op:"defaults", edition}                        resolved features of an empty file of that edition (both constructions)
//	{op:"pair", pair, b}, {op:"pairschema", pair}   proto2/proto3 message vs its editions translation (C38)
//	{op:"xlate", file, xfile, tgt, items}           a proto2/proto3 abstract file vs its editions translation on string inputs (C38, xlate.go)
//
// out keys of file/linked: ok, snap, back, rt, bsnap, bsame, blazy, (linked:) file, nsame
func init() {
	core.Register(&core.Module{Name: "desc", Exec: descExec, Gen: descGen})
}

// harnessBug aborts the whole run: a defect of the harness must never be mistaken for a defect of the code under test.
func harnessBug(format string, a ...any) {
	fmt.Fprintf(os.Stderr, "HARNESS-BUG: "+format+"\n", a...)
	os.Exit(3)
}

type resolver interface {
	FindFileByPath(string) (protoreflect.FileDescriptor, error)
	FindDescriptorByName(protoreflect.FullName) (protoreflect.Descriptor, error)
}

// noRegister lets filedesc.Builder resolve against a registry without registering its result there.
type noRegister struct{ resolver }

func (noRegister) RegisterFile(protoreflect.FileDescriptor) error { return nil }

// synthEnv builds the registry that an abstract file's environment (imps, deps) describes.
func synthEnv(f *AFile) *protoregistry.Files {
	reg := &protoregistry.Files{}
	byFile := map[string][]AImp{}
	var paths []string
	for _, imp := range f.Imps {
		if _, ok := byFile[imp.File]; !ok {
			paths = append(paths, imp.File)
		}
		byFile[imp.File] = append(byFile[imp.File], imp)
	}
	for _, d := range f.Deps {
		if _, ok := byFile[d.Path]; !ok && !strings.HasPrefix(d.Path, "missing") {
			byFile[d.Path] = nil
			paths = append(paths, d.Path)
		}
	}
	for _, path := range paths {
		if path == descriptorPath {
			// the options messages are the linked ones: extensions of them can be exercised on the generated Go types
			fd, err := protoregistry.GlobalFiles.FindFileByPath(path)
			if err != nil {
				harnessBug("descriptor.proto is not linked: %v", err)
			}
			for _, imp := range byFile[path] {
				md := fd.Messages().ByName(protoreflect.FullName(imp.Full).Name())
				if md == nil || md.FullName() != protoreflect.FullName(imp.Full) || imp.K != "m" || !sameRanges(md, imp.XR) {
					harnessBug("environment symbol %s does not describe descriptor.proto's", imp.Full)
				}
			}
			if err := reg.RegisterFile(fd); err != nil {
				harnessBug("cannot register %s: %v", path, err)
			}
			continue
		}
		ef := &AFile{Path: path, Syntax: "editions", Edition: 1000}
		for i, imp := range byFile[path] {
			k := strings.LastIndexByte(imp.Full, '.')
			pkg, name := "", imp.Full
			if k >= 0 {
				pkg, name = imp.Full[:k], imp.Full[k+1:]
			}
			if i == 0 {
				ef.Pkg = pkg
			} else if ef.Pkg != pkg {
				harnessBug("environment file %s mixes packages %q and %q", path, ef.Pkg, pkg)
			}
			switch imp.K {
			case "m":
				ef.Msgs = append(ef.Msgs, AMsg{Name: name, XR: imp.XR})
			case "e":
				e := AEnum{Name: name, Vals: imp.Vals}
				if imp.Closed {
					e.Feat.Et = "CLOSED"
				}
				ef.Enums = append(ef.Enums, e)
			}
		}
		fd, err := protodesc.NewFile(Render(ef), nil)
		if err != nil {
			harnessBug("cannot build environment file %s: %v", path, err)
		}
		if err := reg.RegisterFile(fd); err != nil {
			harnessBug("cannot register environment file %s: %v", path, err)
		}
	}
	return reg
}

const descriptorPath = "google/protobuf/descriptor.proto"

func sameRanges(md protoreflect.MessageDescriptor, xr [][2]int) bool {
	rs := md.ExtensionRanges()
	if rs.Len() != len(xr) {
		return false
	}
	for i := range xr {
		if r := rs.Get(i); int(r[0]) != xr[i][0] || int(r[1]) != xr[i][1] {
			return false
		}
	}
	return true
}

func newFile(p *descriptorpb.FileDescriptorProto, allow bool, r resolver) (fd protoreflect.FileDescriptor, err error, pan string) {
	defer func() {
		if x := recover(); x != nil {
			fd, err, pan = nil, nil, fmt.Sprint(x)
		}
	}()
	var pr protodesc.Resolver
	if r != nil {
		pr = r
	}
	fd, err = protodesc.FileOptions{AllowUnresolvable: allow}.New(p, pr)
	return
}

func build(p *descriptorpb.FileDescriptorProto, r resolver) (fd protoreflect.FileDescriptor, pan string) {
	defer func() {
		if x := recover(); x != nil {
			fd, pan = nil, fmt.Sprint(x)
		}
	}()
	raw, err := proto.MarshalOptions{AllowPartial: true, Deterministic: true}.Marshal(p)
	if err != nil {
		harnessBug("marshal: %v", err)
	}
	out := filedesc.Builder{RawDescriptor: raw, FileRegistry: noRegister{r}}.Build()
	return out.File, ""
}

func snapOf(fd protoreflect.FileDescriptor, rev bool, ref *AFile) (s *Snapshot, pan string) {
	defer func() {
		if x := recover(); x != nil {
			s, pan = nil, fmt.Sprint(x)
		}
	}()
	s = Snap(fd, rev)
	maskOpts(s, ref)
	return s, ""
}

// maskOpts replaces every options observation that equals (byte for byte, nil-ness included) the options of the
// corresponding declaration of the input proto by "=".  The specification demands "=" everywhere: options are an
// uninterpreted payload that must be carried verbatim.
func maskOpts(s *Snapshot, f *AFile) {
	m := func(got *string, want string) {
		if *got == want {
			*got = "="
		}
	}
	m(&s.Opts, f.opts)
	if len(s.Msgs) == len(f.Msgs) {
		for i := range s.Msgs {
			sm, fm := &s.Msgs[i], &f.Msgs[i]
			m(&sm.Opts, fm.opts)
			if len(sm.Fields) == len(fm.Fields) {
				for j := range sm.Fields {
					m(&sm.Fields[j].Opts, fm.Fields[j].opts)
				}
			}
			if len(sm.Oneofs) == len(fm.Oneofs) {
				for j := range sm.Oneofs {
					m(&sm.Oneofs[j].Opts, fm.Oneofs[j].opts)
				}
			}
			if len(sm.XROpts) == len(fm.XR) {
				for j := range sm.XROpts {
					w := ""
					if j < len(fm.xropts) {
						w = fm.xropts[j]
					}
					m(&sm.XROpts[j], w)
				}
			}
		}
	}
	if len(s.Enums) == len(f.Enums) {
		for i := range s.Enums {
			m(&s.Enums[i].Opts, f.Enums[i].opts)
			if len(s.Enums[i].Vals) == len(f.Enums[i].Vals) {
				for j := range s.Enums[i].Vals {
					m(&s.Enums[i].Vals[j].Opts, f.Enums[i].Vals[j].opts)
				}
			}
		}
	}
	if len(s.Exts) == len(f.Exts) {
		for i := range s.Exts {
			m(&s.Exts[i].Opts, f.Exts[i].opts)
		}
	}
	if len(s.Svcs) == len(f.Svcs) {
		for i := range s.Svcs {
			m(&s.Svcs[i].Opts, f.Svcs[i].opts)
			if len(s.Svcs[i].Methods) == len(f.Svcs[i].Methods) {
				for j := range s.Svcs[i].Methods {
					m(&s.Svcs[i].Methods[j].Opts, f.Svcs[i].Methods[j].opts)
				}
			}
		}
	}
}

func wantSet(c core.Case) map[string]bool {
	w := map[string]bool{}
	for _, x := range core.List(c["want"]) {
		w[core.Str(x)] = true
	}
	return w
}

func sameAny(a, b any) bool { return reflect.DeepEqual(core.Norm(a), core.Norm(b)) }

// diffPaths names the accessor paths (indices stripped) on which two snapshots differ (diagnostics only).
func diffPaths(a, b any) []any {
	set := map[string]bool{}
	var walk func(x, y any, path string)
	walk = func(x, y any, path string) {
		switch xv := x.(type) {
		case map[string]any:
			yv, ok := y.(map[string]any)
			if !ok {
				set[path] = true
				return
			}
			for k := range xv {
				if _, ok := yv[k]; !ok {
					set[path+"."+k] = true
				} else {
					walk(xv[k], yv[k], path+"."+k)
				}
			}
		case []any:
			yv, ok := y.([]any)
			if !ok || len(xv) != len(yv) {
				set[path+"(len)"] = true
				return
			}
			for i := range xv {
				walk(xv[i], yv[i], path+"[]")
			}
		default:
			if !reflect.DeepEqual(x, y) {
				set[path] = true
			}
		}
	}
	walk(core.Norm(a), core.Norm(b), "")
	var out []string
	for k := range set {
		out = append(out, strings.TrimPrefix(k, "."))
	}
	sort.Strings(out)
	res := make([]any, len(out))
	for i, k := range out {
		res[i] = k
	}
	return res
}

// run pushes one descriptor proto through the code under test.  ref is Abstract(p) (with option payloads);
// d0, when non-nil, is the descriptor that generated code registered for the same file.
func run(out core.Case, p *descriptorpb.FileDescriptorProto, ref *AFile, allow bool, r resolver, want map[string]bool, d0 protoreflect.FileDescriptor) {
	d, err, pan := newFile(p, allow, r)
	if pan != "" {
		out["panic"] = "protodesc.NewFile: " + pan
		return
	}
	out["ok"] = err == nil
	if err != nil {
		out["err"] = errClass(err.Error())
		return
	}
	snap, pan := snapOf(d, false, ref)
	if pan != "" {
		out["panic"] = "accessor: " + pan
		return
	}
	var snapAny any = ToAny(snap)
	if d0 != nil {
		s0, pan := snapOf(d0, false, ref)
		if pan != "" {
			out["panic"] = "accessor of the generated descriptor: " + pan
			return
		}
		s0Any := ToAny(s0)
		out["nsame"] = sameAny(s0Any, snapAny)
		if want["snap"] {
			out["snap"] = s0Any
		}
		if !sameAny(s0Any, snapAny) {
			out["ndiff"] = diffPaths(s0Any, snapAny) // diagnostics
		}
	} else if want["snap"] {
		out["snap"] = snapAny
	}
	if want["back"] || want["rt"] {
		var p2 *descriptorpb.FileDescriptorProto
		func() {
			defer func() {
				if x := recover(); x != nil {
					out["panic"] = "ToFileDescriptorProto: " + fmt.Sprint(x)
				}
			}()
			p2 = protodesc.ToFileDescriptorProto(d)
		}()
		if p2 == nil {
			return
		}
		if want["back"] {
			back := Abstract(p2)
			back.Imps, back.Legacy = ref.Imps, ref.Legacy
			for i := range back.Deps {
				if i < len(ref.Deps) && back.Deps[i].Path == ref.Deps[i].Path {
					back.Deps[i].Missing = ref.Deps[i].Missing
				}
			}
			out["back"] = ToAny(back)
		}
		if want["rt"] {
			d2, err2, pan2 := newFile(p2, allow, r)
			if pan2 != "" {
				out["panic"] = "protodesc.NewFile(ToFileDescriptorProto): " + pan2
				return
			}
			rt := err2 == nil
			if rt {
				s2, pan := snapOf(d2, false, ref)
				if pan != "" {
					out["panic"] = "accessor: " + pan
					return
				}
				rt = sameAny(ToAny(s2), snapAny)
				if !rt {
					out["rtdiff"] = diffPaths(ToAny(s2), snapAny)
				}
			}
			out["rt"] = rt
		}
	}
	if (want["bsnap"] || want["bsame"] || want["blazy"]) && builderDomain(ref) {
		bd, pan := build(p, r)
		if pan != "" {
			out["panic"] = "filedesc.Builder: " + pan
			return
		}
		sb, pan := snapOf(bd, false, ref)
		if pan != "" {
			out["panic"] = "accessor (builder): " + pan
			return
		}
		sbAny := ToAny(sb)
		if want["bsnap"] {
			out["bsnap"] = sbAny
		}
		out["bsame"] = sameAny(sbAny, snapAny)
		if !sameAny(sbAny, snapAny) {
			out["bdiff"] = diffPaths(sbAny, snapAny)
		}
		if want["blazy"] {
			bd2, pan := build(p, r)
			if pan != "" {
				out["panic"] = "filedesc.Builder: " + pan
				return
			}
			sr, pan := snapOf(bd2, true, ref)
			if pan != "" {
				out["panic"] = "accessor (builder, reversed order): " + pan
				return
			}
			out["blazy"] = sameAny(ToAny(sr), sbAny)
		}
	}
}

// builderDomain: filedesc.Builder is specified for descriptor protos as protoc writes them -- every type reference
// fully qualified and every field with an explicit type.
func builderDomain(f *AFile) bool {
	abs := func(s string) bool { return s == "" || strings.HasPrefix(s, ".") }
	for _, m := range f.Msgs {
		for _, x := range m.Fields {
			if !abs(x.TName) || x.Type == 0 || x.Label == 0 {
				return false
			}
		}
	}
	for _, x := range f.Exts {
		if !abs(x.TName) || !abs(x.Extendee) || x.Type == 0 || x.Label == 0 {
			return false
		}
	}
	for _, s := range f.Svcs {
		for _, m := range s.Methods {
			if !abs(m.In) || !abs(m.Out) {
				return false
			}
		}
	}
	return true
}

// errClass keeps error texts out of the comparison but available for diagnosis.
func errClass(s string) string {
	s = strings.TrimPrefix(s, "proto:")
	s = strings.TrimLeft(s, "  ")
	if len(s) > 160 {
		s = s[:160]
	}
	return s
}

func descExec(c core.Case) core.Case {
	out := core.Case{}
	switch op := core.Str(c["op"]); op {
	case "file":
		f := FileFromAny(c["file"])
		p := Render(f)
		ref := Abstract(p)
		ref.Imps, ref.Legacy = f.Imps, f.Legacy
		for i := range ref.Deps {
			ref.Deps[i].Missing = strings.HasPrefix(ref.Deps[i].Path, "missing")
		}
		if !sameAny(ToAny(ref), ToAny(f)) {
			harnessBug("Abstract(Render(f)) differs from f (abstract file not canonical?)\n f  = %v\n f' = %v", core.Norm(ToAny(f)), core.Norm(ToAny(ref)))
		}
		if f.Legacy != flags.ProtoLegacy {
			harnessBug("case was generated for legacy=%v but this binary has protolegacy=%v", f.Legacy, flags.ProtoLegacy)
		}
		run(out, p, ref, core.Bool(c["allow"]), synthEnv(f), wantSet(c), nil)
	case "linked":
		path := core.Str(c["path"])
		d0, err := protoregistry.GlobalFiles.FindFileByPath(path)
		if err != nil {
			harnessBug("linked file %q: %v", path, err)
		}
		p := protodesc.ToFileDescriptorProto(d0)
		ref := Abstract(p)
		ref.Imps, ref.Legacy = envOf(ref, protoregistry.GlobalFiles), flags.ProtoLegacy
		for i := range ref.Deps {
			if _, err := protoregistry.GlobalFiles.FindFileByPath(ref.Deps[i].Path); err != nil {
				ref.Deps[i].Missing = true
			}
		}
		if core.Bool(c["allow"]) {
			d0 = nil // the generated descriptor resolves through Go types what no resolver can; only the protodesc result is predicted
		}
		out["file"] = ToAny(ref)
		out["domain"] = proto.Equal(Render(ref), p)
		run(out, p, ref, core.Bool(c["allow"]), protoregistry.GlobalFiles, wantSet(c), d0)
	case "fuzz":
		execFuzz(c, out)
	case "defaults":
		execDefaults(c, out)
	case "pair":
		execPair(c, out)
	case "pairschema":
		execPairSchema(c, out)
	case "pairgen":
		execPairGen(c, out)
	case "xlate":
		execXlate(c, out)
	default:
		harnessBug("unknown desc op %q", op)
	}
	return out
}

// LinkedPaths lists the files linked into this binary (sorted).
func LinkedPaths() []string {
	var ps []string
	protoregistry.GlobalFiles.RangeFiles(func(fd protoreflect.FileDescriptor) bool {
		ps = append(ps, fd.Path())
		return true
	})
	sort.Strings(ps)
	return ps
}

func hasMessageSet(fd protoreflect.FileDescriptor) bool {
	var any func(ms protoreflect.MessageDescriptors) bool
	any = func(ms protoreflect.MessageDescriptors) bool {
		for i := 0; i < ms.Len(); i++ {
			if o, ok := ms.Get(i).Options().(*descriptorpb.MessageOptions); ok && o.GetMessageSetWireFormat() {
				return true
			}
			if any(ms.Get(i).Messages()) {
				return true
			}
		}
		return false
	}
	return any(fd.Messages())
}

func unresolvedImports(fd protoreflect.FileDescriptor) bool {
	for i := 0; i < fd.Imports().Len(); i++ {
		if fd.Imports().Get(i).IsPlaceholder() {
			return true
		}
	}
	return false
}

func descGen(r *rand.Rand, n int, emit func(core.Case)) {
	mode := os.Getenv("DESC_GEN")
	switch mode {
	case "linked", "":
		// every linked file once (n caps the number; the seed rotates the start)
		ps := LinkedPaths()
		if n > len(ps) {
			n = len(ps)
		}
		start := r.IntN(len(ps))
		want := strings.Split(os.Getenv("DESC_WANT"), ",")
		var wl []any
		for _, w := range want {
			if w != "" {
				wl = append(wl, w)
			}
		}
		for i := 0; i < n; i++ {
			p := ps[(start+i)%len(ps)]
			fd, _ := protoregistry.GlobalFiles.FindFileByPath(p)
			emit(core.Case{"op": "linked", "path": p, "allow": unresolvedImports(fd), "want": wl})
		}
	default:
		genOther(mode, r, n, emit)
	}
}
