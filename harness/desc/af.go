// Package desc is the conformance harness of the descriptor family (C34-C38).
//
// The TLA+ specification SchemaSpace talks about an *abstract file* (AF): a flat, JSON-friendly
// rendering of a google.protobuf.FileDescriptorProto (messages in depth-first pre-order with
// parent indices, enums and extensions grouped by parent, type references as written).
// This file holds the AF data types and the two trusted conversions
//
//	Render(AF)   -> *descriptorpb.FileDescriptorProto     (used for every TLC-generated schema)
//	Abstract(p)  -> AF                                    (used for linked files and round trips)
//
// which are cross-checked against each other on every case (Abstract(Render(f)) == f).
package desc

import (
	"encoding/hex"
	"fmt"
	"reflect"
	"strings"

	"google.golang.org/protobuf/proto"
	"google.golang.org/protobuf/reflect/protoreflect"
	"google.golang.org/protobuf/types/descriptorpb"
	"google.golang.org/protobuf/types/gofeaturespb"
)

// FS is a set of explicit feature settings; "" means unset.
type FS struct {
	Fp   string `json:"fp"`   // field_presence
	Et   string `json:"et"`   // enum_type
	Rfe  string `json:"rfe"`  // repeated_field_encoding
	Utf8 string `json:"utf8"` // utf8_validation
	Me   string `json:"me"`   // message_encoding
	Jf   string `json:"jf"`   // json_format
	Gl   string `json:"gl"`   // (pb.go).legacy_unmarshal_json_enum  "t" | "f"
	Ga   string `json:"ga"`   // (pb.go).api_level
	Gs   string `json:"gs"`   // (pb.go).strip_enum_prefix
}

type ADep struct {
	Path    string `json:"path"`
	Public  bool   `json:"public"`
	Missing bool   `json:"missing"` // environment: the resolver does not know this path
}

type AVal struct {
	Name string `json:"name"`
	Num  int    `json:"num"`
	Dep  bool   `json:"dep"` // options.deprecated (a representative pass-through option)
	opts string
}

// AImp describes one symbol of the environment (a declaration of another file that this file refers to).
type AImp struct {
	Full   string   `json:"full"`
	K      string   `json:"k"`      // "m" | "e"
	File   string   `json:"file"`   // path of the declaring file
	Vis    bool     `json:"vis"`    // covered by the file's imports (directly or through public imports)
	Closed bool     `json:"closed"` // enums
	Vals   []AVal   `json:"vals"`   // enums
	XR     [][2]int `json:"xr"`     // messages: extension ranges
	MSet   bool     `json:"mset"`   // messages
	MapEnt bool     `json:"mapent"` // messages
}

type AField struct {
	Name     string `json:"name"`
	Num      int    `json:"num"`
	Label    int    `json:"label"` // 0 = absent
	Type     int    `json:"type"`  // 0 = absent
	TName    string `json:"tname"` // type_name as written
	HJ       bool   `json:"hj"`
	JSON     string `json:"json"`
	HD       bool   `json:"hd"`
	Def      string `json:"def"`
	Oneof    int    `json:"oneof"` // 0 = none, k = oneof_index k-1
	P3Opt    bool   `json:"p3opt"`
	Packed   string `json:"packed"` // "" | "t" | "f"
	Lazy     bool   `json:"lazy"`
	Dep      bool   `json:"dep"`
	Feat     FS     `json:"feat"`
	Extendee string `json:"extendee"` // extensions only
	Parent   int    `json:"parent"`   // extensions only: 0 = file, k = message k
	opts     string
}

type AOneof struct {
	Name string `json:"name"`
	opts string
}

type AMsg struct {
	Name     string   `json:"name"`
	Parent   int      `json:"parent"` // 0 = file, k = message k (k < own position)
	Feat     FS       `json:"feat"`
	MapEntry bool     `json:"mapentry"`
	MSet     bool     `json:"mset"`
	Dep      bool     `json:"dep"`
	Vis      int      `json:"vis"`
	Fields   []AField `json:"fields"`
	Oneofs   []AOneof `json:"oneofs"`
	RR       [][2]int `json:"rr"` // reserved ranges, end exclusive
	RN       []string `json:"rn"`
	XR       [][2]int `json:"xr"` // extension ranges, end exclusive
	opts     string
	xropts   []string
}

type AEnum struct {
	Name   string   `json:"name"`
	Parent int      `json:"parent"`
	Feat   FS       `json:"feat"`
	Alias  bool     `json:"alias"`
	Dep    bool     `json:"dep"`
	Vis    int      `json:"vis"`
	Vals   []AVal   `json:"vals"`
	RR     [][2]int `json:"rr"` // end inclusive
	RN     []string `json:"rn"`
	opts   string
}

type AMethod struct {
	Name string `json:"name"`
	In   string `json:"in"`
	Out  string `json:"out"`
	CS   bool   `json:"cs"`
	SS   bool   `json:"ss"`
	Dep  bool   `json:"dep"`
	opts string
}

type ASvc struct {
	Name    string    `json:"name"`
	Dep     bool      `json:"dep"`
	Methods []AMethod `json:"methods"`
	opts    string
}

type AFile struct {
	Path    string   `json:"path"`
	Pkg     string   `json:"pkg"`
	Syntax  string   `json:"syntax"`  // "proto2" | "proto3" | "editions" | anything (invalid)
	Edition int      `json:"edition"` // 0 unless syntax = editions
	Feat    FS       `json:"feat"`
	Dep     bool     `json:"dep"`
	Legacy  bool     `json:"legacy"` // environment: built with -tags protolegacy
	Deps    []ADep   `json:"deps"`
	OptDeps []string `json:"optdeps"`
	Imps    []AImp   `json:"imps"`
	Msgs    []AMsg   `json:"msgs"`
	Enums   []AEnum  `json:"enums"`
	Exts    []AField `json:"exts"`
	Svcs    []ASvc   `json:"svcs"`
	opts    string
}

// ---------------------------------------------------------------- JSON plumbing

// toAny converts a struct value into map[string]any / []any with [] for nil slices
// (TLC's Json module cannot read null).
func toAny(v reflect.Value) any {
	switch v.Kind() {
	case reflect.Struct:
		m := map[string]any{}
		t := v.Type()
		for i := 0; i < t.NumField(); i++ {
			tag := t.Field(i).Tag.Get("json")
			if t.Field(i).Anonymous {
				for k, x := range toAny(v.Field(i)).(map[string]any) {
					m[k] = x
				}
				continue
			}
			if tag == "" || tag == "-" {
				continue
			}
			m[tag] = toAny(v.Field(i))
		}
		return m
	case reflect.Slice, reflect.Array:
		a := make([]any, v.Len())
		for i := range a {
			a[i] = toAny(v.Index(i))
		}
		return a
	case reflect.Int, reflect.Int32, reflect.Int64:
		return float64(v.Int())
	case reflect.Bool:
		return v.Bool()
	case reflect.String:
		return safeStr(v.String())
	case reflect.Interface, reflect.Pointer:
		if v.IsNil() {
			return []any{}
		}
		return toAny(v.Elem())
	case reflect.Map:
		m := map[string]any{}
		for _, k := range v.MapKeys() {
			m[k.String()] = toAny(v.MapIndex(k))
		}
		return m
	}
	panic(fmt.Sprintf("harness: toAny: unsupported kind %v", v.Kind()))
}

func ToAny(x any) any { return toAny(reflect.ValueOf(x)) }

// safeStr keeps strings that TLC's Json module or ToJson might mangle (quotes, backslashes, control and
// non-ASCII bytes) out of the JSON boundary: they travel as "hex:<bytes>", an opaque token for the specification.
func safeStr(s string) string {
	for i := 0; i < len(s); i++ {
		if s[i] < 0x20 || s[i] >= 0x7f || s[i] == '"' || s[i] == '\\' {
			return "hex:" + hex.EncodeToString([]byte(s))
		}
	}
	if strings.HasPrefix(s, "hex:") {
		return "hex:" + hex.EncodeToString([]byte(s))
	}
	return s
}

func unsafeStr(s string) string {
	if strings.HasPrefix(s, "hex:") {
		if b, err := hex.DecodeString(s[4:]); err == nil {
			return string(b)
		}
	}
	return s
}

// fromAny fills a struct from decoded JSON (inverse of toAny).
func fromAny(x any, v reflect.Value) {
	switch v.Kind() {
	case reflect.Struct:
		m, _ := x.(map[string]any)
		t := v.Type()
		for i := 0; i < t.NumField(); i++ {
			tag := t.Field(i).Tag.Get("json")
			if tag == "" || tag == "-" {
				continue
			}
			if y, ok := m[tag]; ok {
				fromAny(y, v.Field(i))
			}
		}
	case reflect.Slice:
		a, _ := x.([]any)
		s := reflect.MakeSlice(v.Type(), len(a), len(a))
		for i := range a {
			fromAny(a[i], s.Index(i))
		}
		v.Set(s)
	case reflect.Array:
		a, _ := x.([]any)
		for i := 0; i < v.Len() && i < len(a); i++ {
			fromAny(a[i], v.Index(i))
		}
	case reflect.Int:
		switch n := x.(type) {
		case float64:
			v.SetInt(int64(n))
		case int:
			v.SetInt(int64(n))
		}
	case reflect.Bool:
		b, _ := x.(bool)
		v.SetBool(b)
	case reflect.String:
		s, _ := x.(string)
		v.SetString(unsafeStr(s))
	default:
		panic(fmt.Sprintf("harness: fromAny: unsupported kind %v", v.Kind()))
	}
}

func FileFromAny(x any) *AFile {
	f := &AFile{}
	fromAny(x, reflect.ValueOf(f).Elem())
	return f
}

// ---------------------------------------------------------------- features

var featEnumFields = []struct {
	key  func(*FS) *string
	name protoreflect.Name
}{
	{func(f *FS) *string { return &f.Fp }, "field_presence"},
	{func(f *FS) *string { return &f.Et }, "enum_type"},
	{func(f *FS) *string { return &f.Rfe }, "repeated_field_encoding"},
	{func(f *FS) *string { return &f.Utf8 }, "utf8_validation"},
	{func(f *FS) *string { return &f.Me }, "message_encoding"},
	{func(f *FS) *string { return &f.Jf }, "json_format"},
}

func (f FS) empty() bool { return f == FS{} }

func renderFS(f FS) *descriptorpb.FeatureSet {
	if f.empty() {
		return nil
	}
	fs := &descriptorpb.FeatureSet{}
	m := fs.ProtoReflect()
	for _, ef := range featEnumFields {
		s := *ef.key(&f)
		if s == "" {
			continue
		}
		fd := m.Descriptor().Fields().ByName(ef.name)
		ev := fd.Enum().Values().ByName(protoreflect.Name(s))
		if ev == nil {
			panic("harness: unknown feature value " + s)
		}
		m.Set(fd, protoreflect.ValueOfEnum(ev.Number()))
	}
	if f.Gl != "" || f.Ga != "" || f.Gs != "" {
		g := &gofeaturespb.GoFeatures{}
		if f.Gl != "" {
			g.LegacyUnmarshalJsonEnum = proto.Bool(f.Gl == "t")
		}
		if f.Ga != "" {
			n, ok := gofeaturespb.GoFeatures_APILevel_value[f.Ga]
			if !ok {
				panic("harness: unknown api level " + f.Ga)
			}
			g.ApiLevel = gofeaturespb.GoFeatures_APILevel(n).Enum()
		}
		if f.Gs != "" {
			n, ok := gofeaturespb.GoFeatures_StripEnumPrefix_value[f.Gs]
			if !ok {
				panic("harness: unknown strip_enum_prefix " + f.Gs)
			}
			g.StripEnumPrefix = gofeaturespb.GoFeatures_StripEnumPrefix(n).Enum()
		}
		proto.SetExtension(fs, gofeaturespb.E_Go, g)
	}
	return fs
}

// abstractFS reads the explicit settings of a FeatureSet message (generated or dynamic).
func abstractFS(fs *descriptorpb.FeatureSet) FS {
	var f FS
	if fs == nil {
		return f
	}
	m := fs.ProtoReflect()
	for _, ef := range featEnumFields {
		fd := m.Descriptor().Fields().ByName(ef.name)
		if m.Has(fd) {
			n := m.Get(fd).Enum()
			if ev := fd.Enum().Values().ByNumber(n); ev != nil {
				*ef.key(&f) = string(ev.Name())
			} else {
				*ef.key(&f) = fmt.Sprintf("#%d", n)
			}
		}
	}
	if proto.HasExtension(fs, gofeaturespb.E_Go) {
		g, _ := proto.GetExtension(fs, gofeaturespb.E_Go).(*gofeaturespb.GoFeatures)
		if g != nil {
			if g.LegacyUnmarshalJsonEnum != nil {
				f.Gl = map[bool]string{true: "t", false: "f"}[g.GetLegacyUnmarshalJsonEnum()]
			}
			if g.ApiLevel != nil {
				f.Ga = g.GetApiLevel().String()
			}
			if g.StripEnumPrefix != nil {
				f.Gs = g.GetStripEnumPrefix().String()
			}
		}
	}
	return f
}

// ---------------------------------------------------------------- options

func optHex(m proto.Message) string {
	if m == nil || !m.ProtoReflect().IsValid() {
		return ""
	}
	b, err := proto.MarshalOptions{Deterministic: true, AllowPartial: true}.Marshal(m)
	if err != nil {
		panic(err)
	}
	return "x" + hex.EncodeToString(b)
}

func unhexInto(s string, m proto.Message) {
	b, err := hex.DecodeString(s[1:])
	if err != nil {
		panic(err)
	}
	if err := (proto.UnmarshalOptions{AllowPartial: true}).Unmarshal(b, m); err != nil {
		panic(err)
	}
}

func tri(b *bool) string {
	if b == nil {
		return ""
	}
	if *b {
		return "t"
	}
	return "f"
}

func untri(s string) *bool {
	switch s {
	case "t":
		return proto.Bool(true)
	case "f":
		return proto.Bool(false)
	}
	return nil
}

func depOpt(b bool) *bool {
	if b {
		return proto.Bool(true)
	}
	return nil
}

// ---------------------------------------------------------------- Render

func pstr(s string) *string { return proto.String(s) }

func renderField(f *AField, isExt bool) *descriptorpb.FieldDescriptorProto {
	p := &descriptorpb.FieldDescriptorProto{Name: pstr(f.Name), Number: proto.Int32(int32(f.Num))}
	if f.Label != 0 {
		p.Label = descriptorpb.FieldDescriptorProto_Label(f.Label).Enum()
	}
	if f.Type != 0 {
		p.Type = descriptorpb.FieldDescriptorProto_Type(f.Type).Enum()
	}
	if f.TName != "" {
		p.TypeName = pstr(f.TName)
	}
	if f.HJ {
		p.JsonName = pstr(f.JSON)
	}
	if f.HD {
		p.DefaultValue = pstr(f.Def)
	}
	if f.Oneof != 0 {
		p.OneofIndex = proto.Int32(int32(f.Oneof - 1))
	}
	if f.P3Opt {
		p.Proto3Optional = proto.Bool(true)
	}
	if f.Extendee != "" {
		p.Extendee = pstr(f.Extendee)
	}
	if f.opts != "" {
		p.Options = &descriptorpb.FieldOptions{}
		unhexInto(f.opts, p.Options)
	} else if f.Packed != "" || f.Lazy || f.Dep || !f.Feat.empty() {
		p.Options = &descriptorpb.FieldOptions{Packed: untri(f.Packed), Deprecated: depOpt(f.Dep), Features: renderFS(f.Feat)}
		if f.Lazy {
			p.Options.Lazy = proto.Bool(true)
		}
	}
	return p
}

func renderEnum(e *AEnum) *descriptorpb.EnumDescriptorProto {
	p := &descriptorpb.EnumDescriptorProto{Name: pstr(e.Name)}
	for i := range e.Vals {
		v := &e.Vals[i]
		vp := &descriptorpb.EnumValueDescriptorProto{Name: pstr(v.Name), Number: proto.Int32(int32(v.Num))}
		if v.opts != "" {
			vp.Options = &descriptorpb.EnumValueOptions{}
			unhexInto(v.opts, vp.Options)
		} else if v.Dep {
			vp.Options = &descriptorpb.EnumValueOptions{Deprecated: proto.Bool(true)}
		}
		p.Value = append(p.Value, vp)
	}
	for _, r := range e.RR {
		p.ReservedRange = append(p.ReservedRange, &descriptorpb.EnumDescriptorProto_EnumReservedRange{Start: proto.Int32(int32(r[0])), End: proto.Int32(int32(r[1]))})
	}
	p.ReservedName = append(p.ReservedName, e.RN...)
	if e.Vis != 0 {
		p.Visibility = descriptorpb.SymbolVisibility(e.Vis).Enum()
	}
	if e.opts != "" {
		p.Options = &descriptorpb.EnumOptions{}
		unhexInto(e.opts, p.Options)
	} else if e.Alias || e.Dep || !e.Feat.empty() {
		p.Options = &descriptorpb.EnumOptions{Deprecated: depOpt(e.Dep), Features: renderFS(e.Feat)}
		if e.Alias {
			p.Options.AllowAlias = proto.Bool(true)
		}
	}
	return p
}

// Render turns an abstract file into the descriptor proto it denotes.
func Render(f *AFile) *descriptorpb.FileDescriptorProto {
	p := &descriptorpb.FileDescriptorProto{}
	if f.Path != "" {
		p.Name = pstr(f.Path)
	}
	if f.Pkg != "" {
		p.Package = pstr(f.Pkg)
	}
	if f.Syntax != "proto2" { // proto2 is rendered as "syntax absent" (protoc's own normal form)
		p.Syntax = pstr(f.Syntax)
	}
	if f.Edition != 0 {
		p.Edition = descriptorpb.Edition(f.Edition).Enum()
	}
	if f.opts != "" {
		p.Options = &descriptorpb.FileOptions{}
		unhexInto(f.opts, p.Options)
	} else if f.Dep || !f.Feat.empty() {
		p.Options = &descriptorpb.FileOptions{Deprecated: depOpt(f.Dep), Features: renderFS(f.Feat)}
	}
	p.OptionDependency = append(p.OptionDependency, f.OptDeps...)
	for i, d := range f.Deps {
		p.Dependency = append(p.Dependency, d.Path)
		if d.Public {
			p.PublicDependency = append(p.PublicDependency, int32(i))
		}
	}
	msgs := make([]*descriptorpb.DescriptorProto, len(f.Msgs))
	for i := range f.Msgs {
		m := &f.Msgs[i]
		mp := &descriptorpb.DescriptorProto{Name: pstr(m.Name)}
		msgs[i] = mp
		for j := range m.Fields {
			mp.Field = append(mp.Field, renderField(&m.Fields[j], false))
		}
		for _, o := range m.Oneofs {
			op := &descriptorpb.OneofDescriptorProto{Name: pstr(o.Name)}
			if o.opts != "" {
				op.Options = &descriptorpb.OneofOptions{}
				unhexInto(o.opts, op.Options)
			}
			mp.OneofDecl = append(mp.OneofDecl, op)
		}
		for _, r := range m.RR {
			mp.ReservedRange = append(mp.ReservedRange, &descriptorpb.DescriptorProto_ReservedRange{Start: proto.Int32(int32(r[0])), End: proto.Int32(int32(r[1]))})
		}
		mp.ReservedName = append(mp.ReservedName, m.RN...)
		for k, r := range m.XR {
			xp := &descriptorpb.DescriptorProto_ExtensionRange{Start: proto.Int32(int32(r[0])), End: proto.Int32(int32(r[1]))}
			if k < len(m.xropts) && m.xropts[k] != "" {
				xp.Options = &descriptorpb.ExtensionRangeOptions{}
				unhexInto(m.xropts[k], xp.Options)
			}
			mp.ExtensionRange = append(mp.ExtensionRange, xp)
		}
		if m.Vis != 0 {
			mp.Visibility = descriptorpb.SymbolVisibility(m.Vis).Enum()
		}
		if m.opts != "" {
			mp.Options = &descriptorpb.MessageOptions{}
			unhexInto(m.opts, mp.Options)
		} else if m.MapEntry || m.MSet || m.Dep || !m.Feat.empty() {
			mp.Options = &descriptorpb.MessageOptions{Deprecated: depOpt(m.Dep), Features: renderFS(m.Feat)}
			if m.MapEntry {
				mp.Options.MapEntry = proto.Bool(true)
			}
			if m.MSet {
				mp.Options.MessageSetWireFormat = proto.Bool(true)
			}
		}
		if m.Parent == 0 {
			p.MessageType = append(p.MessageType, mp)
		} else {
			if m.Parent < 1 || m.Parent > i {
				panic("harness: abstract file: message parent out of order")
			}
			msgs[m.Parent-1].NestedType = append(msgs[m.Parent-1].NestedType, mp)
		}
	}
	for i := range f.Enums {
		e := &f.Enums[i]
		ep := renderEnum(e)
		if e.Parent == 0 {
			p.EnumType = append(p.EnumType, ep)
		} else {
			msgs[e.Parent-1].EnumType = append(msgs[e.Parent-1].EnumType, ep)
		}
	}
	for i := range f.Exts {
		x := &f.Exts[i]
		xp := renderField(x, true)
		if x.Parent == 0 {
			p.Extension = append(p.Extension, xp)
		} else {
			msgs[x.Parent-1].Extension = append(msgs[x.Parent-1].Extension, xp)
		}
	}
	for i := range f.Svcs {
		s := &f.Svcs[i]
		sp := &descriptorpb.ServiceDescriptorProto{Name: pstr(s.Name)}
		if s.opts != "" {
			sp.Options = &descriptorpb.ServiceOptions{}
			unhexInto(s.opts, sp.Options)
		} else if s.Dep {
			sp.Options = &descriptorpb.ServiceOptions{Deprecated: proto.Bool(true)}
		}
		for j := range s.Methods {
			m := &s.Methods[j]
			mp := &descriptorpb.MethodDescriptorProto{Name: pstr(m.Name), InputType: pstr(m.In), OutputType: pstr(m.Out)}
			if m.CS {
				mp.ClientStreaming = proto.Bool(true)
			}
			if m.SS {
				mp.ServerStreaming = proto.Bool(true)
			}
			if m.opts != "" {
				mp.Options = &descriptorpb.MethodOptions{}
				unhexInto(m.opts, mp.Options)
			} else if m.Dep {
				mp.Options = &descriptorpb.MethodOptions{Deprecated: proto.Bool(true)}
			}
			sp.Method = append(sp.Method, mp)
		}
		p.Service = append(p.Service, sp)
	}
	return p
}

// ---------------------------------------------------------------- Abstract

func abstractField(p *descriptorpb.FieldDescriptorProto, parent int) AField {
	f := AField{
		Name: p.GetName(), Num: int(p.GetNumber()), Label: int(p.GetLabel()), Type: int(p.GetType()), TName: p.GetTypeName(),
		HJ: p.JsonName != nil, JSON: p.GetJsonName(), HD: p.DefaultValue != nil, Def: p.GetDefaultValue(),
		P3Opt: p.GetProto3Optional(), Extendee: p.GetExtendee(), Parent: parent,
	}
	if p.Label == nil {
		f.Label = 0
	}
	if p.Type == nil {
		f.Type = 0
	}
	if p.OneofIndex != nil {
		f.Oneof = int(p.GetOneofIndex()) + 1
	}
	if o := p.Options; o != nil {
		f.Packed = tri(o.Packed)
		f.Lazy = o.GetLazy()
		f.Dep = o.GetDeprecated()
		f.Feat = abstractFS(o.Features)
		f.opts = optHex(o)
	}
	return f
}

func abstractEnum(p *descriptorpb.EnumDescriptorProto, parent int) AEnum {
	e := AEnum{Name: p.GetName(), Parent: parent, Vis: int(p.GetVisibility()), Vals: []AVal{}, RR: [][2]int{}, RN: append([]string{}, p.ReservedName...)}
	for _, v := range p.Value {
		av := AVal{Name: v.GetName(), Num: int(v.GetNumber())}
		if v.Options != nil {
			av.Dep = v.Options.GetDeprecated()
			av.opts = optHex(v.Options)
		}
		e.Vals = append(e.Vals, av)
	}
	for _, r := range p.ReservedRange {
		e.RR = append(e.RR, [2]int{int(r.GetStart()), int(r.GetEnd())})
	}
	if o := p.Options; o != nil {
		e.Alias = o.GetAllowAlias()
		e.Dep = o.GetDeprecated()
		e.Feat = abstractFS(o.Features)
		e.opts = optHex(o)
	}
	return e
}

// Abstract is the inverse of Render on the modelled part of FileDescriptorProto.
// (source_code_info, weak/option dependencies and unknown fields are outside the abstract domain.)
func Abstract(p *descriptorpb.FileDescriptorProto) *AFile {
	f := &AFile{Path: p.GetName(), Pkg: p.GetPackage(), Syntax: p.GetSyntax(), Edition: int(p.GetEdition()),
		Deps: []ADep{}, OptDeps: append([]string{}, p.OptionDependency...), Imps: []AImp{}, Msgs: []AMsg{}, Enums: []AEnum{}, Exts: []AField{}, Svcs: []ASvc{}}
	if p.Syntax == nil {
		f.Syntax = "proto2"
	}
	if o := p.Options; o != nil {
		f.Dep = o.GetDeprecated()
		f.Feat = abstractFS(o.Features)
		f.opts = optHex(o)
	}
	for _, d := range p.Dependency {
		f.Deps = append(f.Deps, ADep{Path: d})
	}
	for _, i := range p.PublicDependency {
		if int(i) >= 0 && int(i) < len(f.Deps) {
			f.Deps[i].Public = true
		}
	}
	// messages in depth-first pre-order; enums and extensions grouped by parent afterwards
	type pend struct {
		mp     *descriptorpb.DescriptorProto
		parent int
	}
	var order []*descriptorpb.DescriptorProto
	var walk func(mp *descriptorpb.DescriptorProto, parent int)
	walk = func(mp *descriptorpb.DescriptorProto, parent int) {
		m := AMsg{Name: mp.GetName(), Parent: parent, Vis: int(mp.GetVisibility()), Fields: []AField{}, Oneofs: []AOneof{}, RR: [][2]int{}, RN: append([]string{}, mp.ReservedName...), XR: [][2]int{}}
		if o := mp.Options; o != nil {
			m.MapEntry = o.GetMapEntry()
			m.MSet = o.GetMessageSetWireFormat()
			m.Dep = o.GetDeprecated()
			m.Feat = abstractFS(o.Features)
			m.opts = optHex(o)
		}
		for _, fp := range mp.Field {
			m.Fields = append(m.Fields, abstractField(fp, 0))
		}
		for _, op := range mp.OneofDecl {
			m.Oneofs = append(m.Oneofs, AOneof{Name: op.GetName(), opts: optHex(nilIfNil(op.Options))})
		}
		for _, r := range mp.ReservedRange {
			m.RR = append(m.RR, [2]int{int(r.GetStart()), int(r.GetEnd())})
		}
		for _, r := range mp.ExtensionRange {
			m.XR = append(m.XR, [2]int{int(r.GetStart()), int(r.GetEnd())})
			m.xropts = append(m.xropts, optHex(nilIfNil(r.Options)))
		}
		f.Msgs = append(f.Msgs, m)
		order = append(order, mp)
		self := len(f.Msgs)
		for _, np := range mp.NestedType {
			walk(np, self)
		}
	}
	for _, mp := range p.MessageType {
		walk(mp, 0)
	}
	for _, ep := range p.EnumType {
		f.Enums = append(f.Enums, abstractEnum(ep, 0))
	}
	for _, xp := range p.Extension {
		f.Exts = append(f.Exts, abstractField(xp, 0))
	}
	for i, mp := range order {
		for _, ep := range mp.EnumType {
			f.Enums = append(f.Enums, abstractEnum(ep, i+1))
		}
		for _, xp := range mp.Extension {
			f.Exts = append(f.Exts, abstractField(xp, i+1))
		}
	}
	for _, sp := range p.Service {
		s := ASvc{Name: sp.GetName(), Methods: []AMethod{}}
		if sp.Options != nil {
			s.Dep = sp.Options.GetDeprecated()
			s.opts = optHex(sp.Options)
		}
		for _, mp := range sp.Method {
			m := AMethod{Name: mp.GetName(), In: mp.GetInputType(), Out: mp.GetOutputType(), CS: mp.GetClientStreaming(), SS: mp.GetServerStreaming()}
			if mp.Options != nil {
				m.Dep = mp.Options.GetDeprecated()
				m.opts = optHex(mp.Options)
			}
			s.Methods = append(s.Methods, m)
		}
		f.Svcs = append(f.Svcs, s)
	}
	return f
}

func nilIfNil[T interface {
	comparable
	proto.Message
}](m T) proto.Message {
	var zero T
	if m == zero {
		return nil
	}
	return m
}

// ---------------------------------------------------------------- environment

// envOf collects the symbols of other files that f refers to, as seen by resolver r.
// It only reads *other* files' descriptors (the environment), never the file under test.
func envOf(f *AFile, r interface {
	FindFileByPath(string) (protoreflect.FileDescriptor, error)
	FindDescriptorByName(protoreflect.FullName) (protoreflect.Descriptor, error)
}) []AImp {
	// files covered by the imports (public imports followed transitively)
	vis := map[string]bool{}
	var pub func(fd protoreflect.FileDescriptor)
	pub = func(fd protoreflect.FileDescriptor) {
		for i := 0; i < fd.Imports().Len(); i++ {
			imp := fd.Imports().Get(i)
			if imp.IsPublic && !vis[imp.Path()] {
				vis[imp.Path()] = true
				pub(imp.FileDescriptor)
			}
		}
	}
	for _, d := range f.Deps {
		vis[d.Path] = true
		if fd, err := r.FindFileByPath(d.Path); err == nil {
			pub(fd)
		}
	}
	local := map[string]bool{}
	full := make([]string, len(f.Msgs))
	join := func(a, b string) string {
		if a == "" {
			return b
		}
		return a + "." + b
	}
	for i, m := range f.Msgs {
		if m.Parent == 0 {
			full[i] = join(f.Pkg, m.Name)
		} else {
			full[i] = join(full[m.Parent-1], m.Name)
		}
		local[full[i]] = true
	}
	scopeOf := func(parent int) string {
		if parent == 0 {
			return f.Pkg
		}
		return full[parent-1]
	}
	for _, e := range f.Enums {
		local[join(scopeOf(e.Parent), e.Name)] = true
	}
	seen := map[string]bool{}
	var imps []AImp
	add := func(scope, ref string) {
		if ref == "" {
			return
		}
		// candidates in protodesc's scoping order; the environment lists every candidate that exists remotely
		var cands []string
		if strings.HasPrefix(ref, ".") {
			cands = []string{ref[1:]}
		} else {
			for s := scope; ; {
				cands = append(cands, join(s, ref))
				if s == "" {
					break
				}
				if k := strings.LastIndexByte(s, '.'); k >= 0 {
					s = s[:k]
				} else {
					s = ""
				}
			}
		}
		for _, c := range cands {
			if seen[c] || local[c] || !protoreflect.FullName(c).IsValid() {
				continue
			}
			d, err := r.FindDescriptorByName(protoreflect.FullName(c))
			if err != nil {
				continue
			}
			seen[c] = true
			imp := AImp{Full: c, File: d.ParentFile().Path(), Vis: vis[d.ParentFile().Path()], Vals: []AVal{}, XR: [][2]int{}}
			switch d := d.(type) {
			case protoreflect.MessageDescriptor:
				imp.K = "m"
				for i := 0; i < d.ExtensionRanges().Len(); i++ {
					r := d.ExtensionRanges().Get(i)
					imp.XR = append(imp.XR, [2]int{int(r[0]), int(r[1])})
				}
				imp.MapEnt = d.IsMapEntry()
				if o, ok := d.Options().(*descriptorpb.MessageOptions); ok {
					imp.MSet = o.GetMessageSetWireFormat()
				}
			case protoreflect.EnumDescriptor:
				imp.K = "e"
				imp.Closed = d.IsClosed()
				for i := 0; i < d.Values().Len(); i++ {
					imp.Vals = append(imp.Vals, AVal{Name: string(d.Values().Get(i).Name()), Num: int(d.Values().Get(i).Number())})
				}
			default:
				imp.K = "o"
			}
			imps = append(imps, imp)
		}
	}
	for i, m := range f.Msgs {
		for _, fl := range m.Fields {
			add(full[i], fl.TName)
		}
	}
	for _, x := range f.Exts {
		add(scopeOf(x.Parent), x.TName)
		add(scopeOf(x.Parent), x.Extendee)
	}
	for _, s := range f.Svcs {
		for _, m := range s.Methods {
			add(join(f.Pkg, s.Name), m.In)
			add(join(f.Pkg, s.Name), m.Out)
		}
	}
	if imps == nil {
		imps = []AImp{}
	}
	return imps
}
