package desc

import (
	"fmt"
	"math/rand/v2"
	"os"
	"strings"

	"google.golang.org/protobuf/internal/flags"
	"google.golang.org/protobuf/internal/verifh/core"
)

// Seeded random schemas (larger than the model checker's bounded space) and random abstract-level mutations.
// The generator aims at valid files but nothing relies on that: the specification computes the defects of
// whatever is generated and demands acceptance or rejection accordingly.

type gnode struct {
	m        AMsg
	parent   *gnode
	children []*gnode
	full     string
	ef       gEF
	idx      int // position in pre-order (1-based), assigned by flatten
}

type gEF struct{ fp, open, packed, delim bool }

func (e gEF) merge(f FS) gEF {
	if f.Fp != "" {
		e.fp = f.Fp != "IMPLICIT"
	}
	if f.Et != "" {
		e.open = f.Et == "OPEN"
	}
	if f.Rfe != "" {
		e.packed = f.Rfe == "PACKED"
	}
	if f.Me != "" {
		e.delim = f.Me == "DELIMITED"
	}
	return e
}

type genum struct {
	e      AEnum
	scope  *gnode // nil = file
	full   string
	closed bool
}

type sgen struct {
	r        *rand.Rand
	f        *AFile
	roots    []*gnode
	all      []*gnode
	enums    []*genum
	fef      gEF
	seq      int
	relStyle bool
}

func (g *sgen) p(n, d int) bool          { return g.r.IntN(d) < n }
func (g *sgen) pick(ss ...string) string { return ss[g.r.IntN(len(ss))] }

func join(a, b string) string {
	if a == "" {
		return b
	}
	return a + "." + b
}

func depEnv() []AImp {
	return []AImp{
		{Full: "dep.DM", K: "m", File: "dep.proto", Vis: true, Vals: []AVal{}, XR: [][2]int{{1000, 2000}}},
		{Full: "dep.DC", K: "e", File: "dep.proto", Vis: true, Closed: true, Vals: []AVal{{Name: "DC_A", Num: 1}, {Name: "DC_B", Num: 2}}, XR: [][2]int{}},
		{Full: "dep.DO", K: "e", File: "dep.proto", Vis: true, Vals: []AVal{{Name: "DO_A", Num: 0}, {Name: "DO_B", Num: 5}}, XR: [][2]int{}},
	}
}

var scalarKinds = []int{1, 2, 3, 4, 5, 6, 7, 8, 9, 12, 13, 15, 16, 17, 18}

func scalarDefault(r *rand.Rand, k int) string {
	// an explicit default equal to the zero value is still a declared default (HasDefault)
	if r.IntN(3) == 0 {
		switch k {
		case 8:
			return "false"
		case 9, 12:
			return ""
		}
		return "0"
	}
	switch k {
	case 1, 2:
		return []string{"0", "1.5", "-2", "inf", "-inf", "nan", "3.5"}[r.IntN(7)]
	case 8:
		return []string{"true", "false"}[r.IntN(2)]
	case 9:
		return []string{"hello", "", "a b", "x_y"}[r.IntN(4)]
	case 12:
		return []string{"abc", "", "xyz"}[r.IntN(3)]
	case 4, 6, 13, 7:
		return []string{"0", "7", "4294967295", "12"}[r.IntN(4)]
	default:
		return []string{"0", "-7", "5", "2147483647", "-2147483648"}[r.IntN(5)]
	}
}

func (g *sgen) refTo(from string, full string) string {
	// some files use relative references throughout (package prefix stripped: resolvable from every scope of the file,
	// names being unique), a few mix in innermost names that only resolve from a scope enclosing the target
	switch {
	case g.relStyle && g.p(1, 12):
		return full[strings.LastIndexByte(full, '.')+1:]
	case g.relStyle && g.p(1, 2):
		if g.f.Pkg != "" {
			return strings.TrimPrefix(full, g.f.Pkg+".")
		}
		return full
	}
	return "." + full
}

// GenFile produces one random abstract file.
func GenFile(r *rand.Rand) *AFile {
	g := &sgen{r: r}
	f := &AFile{Path: "gen.proto", Legacy: flags.ProtoLegacy, Deps: []ADep{}, OptDeps: []string{}, Imps: []AImp{}, Msgs: []AMsg{}, Enums: []AEnum{}, Exts: []AField{}, Svcs: []ASvc{}}
	g.f = f
	g.relStyle = r.IntN(3) == 0
	f.Pkg = g.pick("", "g", "g.h", "g")
	switch r.IntN(4) {
	case 0:
		f.Syntax = "proto2"
		g.fef = gEF{fp: true}
	case 1:
		f.Syntax = "proto3"
		g.fef = gEF{open: true, packed: true}
	default:
		f.Syntax = "editions"
		f.Edition = []int{1000, 1000, 1001}[r.IntN(3)]
		g.fef = gEF{fp: true, open: true, packed: true}
		if g.p(1, 2) {
			if g.p(1, 4) {
				f.Feat.Fp = "IMPLICIT"
			}
			if g.p(1, 4) {
				f.Feat.Et = "CLOSED"
			}
			if g.p(1, 4) {
				f.Feat.Rfe = "EXPANDED"
			}
			if g.p(1, 4) {
				f.Feat.Utf8 = "NONE"
			}
			if g.p(1, 4) {
				f.Feat.Me = "DELIMITED"
			}
			if g.p(1, 4) {
				f.Feat.Jf = "LEGACY_BEST_EFFORT"
			}
			if g.p(1, 4) {
				f.Feat.Ga = g.pick("API_OPEN", "API_HYBRID", "API_OPAQUE")
			}
			if g.p(1, 6) {
				f.Feat.Gl = g.pick("t", "f")
			}
			if g.p(1, 6) {
				f.Feat.Gs = g.pick("STRIP_ENUM_PREFIX_KEEP", "STRIP_ENUM_PREFIX_GENERATE_BOTH", "STRIP_ENUM_PREFIX_STRIP")
			}
		}
		g.fef = g.fef.merge(f.Feat)
	}
	f.Dep = g.p(1, 8)
	if g.p(2, 5) {
		if g.p(1, 2) {
			f.Deps = append(f.Deps, ADep{Path: "dep2.proto", Public: g.p(1, 2)})
		}
		f.Deps = append(f.Deps, ADep{Path: "dep.proto", Public: g.p(1, 3)})
		if g.p(1, 4) {
			f.Deps = append(f.Deps, ADep{Path: "dep3.proto", Public: g.p(1, 2)})
		}
		f.Imps = depEnv()
	}
	ed := f.Syntax == "editions"

	// message tree
	nm := 1 + r.IntN(6)
	var path []*gnode
	for i := 0; i < nm; i++ {
		g.seq++
		n := &gnode{m: AMsg{Name: fmt.Sprintf("Msg%d", g.seq), Fields: []AField{}, Oneofs: []AOneof{}, RR: [][2]int{}, RN: []string{}, XR: [][2]int{}}}
		depth := 0
		if len(path) > 0 {
			depth = r.IntN(len(path) + 1)
		}
		path = path[:depth]
		pef, scope := g.fef, f.Pkg
		if depth > 0 {
			n.parent = path[depth-1]
			n.parent.children = append(n.parent.children, n)
			pef, scope = n.parent.ef, n.parent.full
		} else {
			g.roots = append(g.roots, n)
		}
		if ed && g.p(1, 4) {
			switch r.IntN(5) {
			case 0:
				n.m.Feat.Fp = g.pick("IMPLICIT", "EXPLICIT")
			case 1:
				n.m.Feat.Et = g.pick("CLOSED", "OPEN")
			case 2:
				n.m.Feat.Me = g.pick("DELIMITED", "LENGTH_PREFIXED")
			case 3:
				n.m.Feat.Rfe = g.pick("EXPANDED", "PACKED")
			case 4:
				n.m.Feat.Utf8 = g.pick("NONE", "VERIFY")
				n.m.Feat.Ga = g.pick("", "API_OPAQUE")
			}
		}
		n.ef = pef.merge(n.m.Feat)
		n.full = join(scope, n.m.Name)
		n.m.Dep = g.p(1, 10)
		if f.Syntax != "proto3" && g.p(1, 3) {
			n.m.XR = append(n.m.XR, [2]int{1000, 2000})
			if g.p(1, 3) {
				n.m.XR = append(n.m.XR, [2]int{536870000, 536870912})
			}
		}
		if g.p(1, 3) {
			n.m.RR = append(n.m.RR, [2]int{100, 200})
			if g.p(1, 3) {
				n.m.RR = append(n.m.RR, [2]int{99, 100})
			}
			n.m.RN = append(n.m.RN, "rsv", "other_rsv")
		}
		// reserved ranges that touch an extension range on either side (no number in common: valid)
		if len(n.m.XR) > 0 && g.p(1, 3) {
			n.m.RR = append(n.m.RR, [2]int{2000, 2003})
			if g.p(1, 2) {
				n.m.RR = append(n.m.RR, [2]int{999, 1000})
			}
		}
		path = append(path, n)
		g.all = append(g.all, n)
	}
	// enums
	ne := r.IntN(4)
	for i := 0; i < ne; i++ {
		ge := &genum{e: AEnum{Name: fmt.Sprintf("En%d", i+1), Vals: []AVal{}, RR: [][2]int{}, RN: []string{}}}
		pef, scope := g.fef, f.Pkg
		if g.p(1, 2) {
			ge.scope = g.all[r.IntN(len(g.all))]
			pef, scope = ge.scope.ef, ge.scope.full
		}
		if ed && g.p(1, 3) {
			ge.e.Feat.Et = g.pick("CLOSED", "OPEN")
			if g.p(1, 3) {
				ge.e.Feat.Gl = g.pick("t", "f")
			}
		}
		ge.closed = !pef.merge(ge.e.Feat).open
		ge.full = join(scope, ge.e.Name)
		nv := 1 + r.IntN(4)
		for j := 0; j < nv; j++ {
			num := j
			if j > 0 && g.p(1, 5) {
				num = -j
			}
			if j == nv-1 && j > 0 && g.p(1, 6) {
				num = 2147483647
			}
			ge.e.Vals = append(ge.e.Vals, AVal{Name: fmt.Sprintf("EN%d_V%d", i+1, j), Num: num, Dep: g.p(1, 10)})
		}
		if nv > 1 && g.p(1, 4) {
			ge.e.Alias = true
			ge.e.Vals = append(ge.e.Vals, AVal{Name: fmt.Sprintf("EN%d_ALIAS", i+1), Num: ge.e.Vals[r.IntN(nv)].Num})
		}
		if g.p(1, 3) {
			ge.e.RR = append(ge.e.RR, [2]int{1000, 2000}, [2]int{-50, -40})
			ge.e.RN = append(ge.e.RN, "RSV")
		}
		ge.e.Dep = g.p(1, 10)
		g.enums = append(g.enums, ge)
	}
	// fields
	for _, n := range append([]*gnode{}, g.all...) {
		g.fields(n)
	}
	g.flatten()
	// extensions
	var extendable []string
	for _, n := range g.all {
		if len(n.m.XR) > 0 && !n.m.MapEntry {
			extendable = append(extendable, n.full)
		}
	}
	if len(f.Deps) > 0 {
		extendable = append(extendable, "dep.DM")
	}
	if len(extendable) > 0 && f.Syntax != "proto3" {
		nx := r.IntN(4)
		parent := 0
		for i := 0; i < nx; i++ {
			if g.p(1, 3) {
				for tries := 0; tries < 4; tries++ {
					p := parent + r.IntN(len(g.all)-parent+1)
					if p == 0 || !g.all[p-1].m.MapEntry {
						parent = p
						break
					}
				}
			}
			scope, pef := f.Pkg, g.fef
			if parent > 0 {
				scope, pef = g.all[parent-1].full, g.all[parent-1].ef
			}
			x := g.field(nil, scope, pef, fmt.Sprintf("ext%d", i+1), 1000+i*7, true)
			x.Extendee = "." + extendable[r.IntN(len(extendable))]
			x.Parent = parent
			f.Exts = append(f.Exts, x)
		}
	}
	// services
	for i := 0; i < r.IntN(3); i++ {
		s := ASvc{Name: fmt.Sprintf("Svc%d", i+1), Dep: g.p(1, 6), Methods: []AMethod{}}
		for j := 0; j < r.IntN(3); j++ {
			in, out := g.plainMsg(), g.plainMsg()
			s.Methods = append(s.Methods, AMethod{Name: fmt.Sprintf("Call%d", j+1), In: g.refTo("", in.full), Out: g.refTo("", out.full), CS: g.p(1, 3), SS: g.p(1, 3), Dep: g.p(1, 8)})
		}
		f.Svcs = append(f.Svcs, s)
	}
	return f
}

func (g *sgen) plainMsg() *gnode {
	for {
		n := g.all[g.r.IntN(len(g.all))]
		if !n.m.MapEntry {
			return n
		}
	}
}

// field makes one field (or extension) of a random shape that is valid in its context.
func (g *sgen) field(n *gnode, scope string, pef gEF, name string, num int, isExt bool) AField {
	r, f := g.r, g.f
	ed := f.Syntax == "editions"
	x := AField{Name: name, Num: num, Label: 1}
	if g.p(1, 3) {
		x.Label = 3
	} else if f.Syntax == "proto2" && !isExt && g.p(1, 5) {
		x.Label = 2
	}
	ef := pef
	if ed && !isExt && x.Label == 1 && g.p(1, 6) {
		x.Feat.Fp = g.pick("IMPLICIT", "EXPLICIT", "LEGACY_REQUIRED")
		ef = ef.merge(x.Feat)
	}
	if ed && g.p(1, 8) {
		x.Feat.Utf8 = g.pick("NONE", "VERIFY")
	}
	if ed && x.Label == 3 && g.p(1, 4) {
		x.Feat.Rfe = g.pick("EXPANDED", "PACKED")
	}
	implicit := !isExt && !ef.fp && x.Label == 1
	switch c := r.IntN(10); {
	case c < 6:
		x.Type = scalarKinds[r.IntN(len(scalarKinds))]
	case c < 8:
		x.Type = 11
		x.TName = g.refTo(scope, g.plainMsg().full)
		if len(f.Deps) > 0 && g.p(1, 5) {
			x.TName = ".dep.DM"
		}
		if ed && g.p(1, 4) {
			x.Feat.Me = g.pick("DELIMITED", "LENGTH_PREFIXED")
		}
		x.Lazy = g.p(1, 6)
		if x.Feat.Fp == "IMPLICIT" {
			x.Feat.Fp = ""
		}
	default:
		var cands []*genum
		for _, e := range g.enums {
			if !(e.closed && (f.Syntax == "proto3" || implicit)) {
				cands = append(cands, e)
			}
		}
		if len(cands) == 0 {
			x.Type = 5
			break
		}
		e := cands[r.IntN(len(cands))]
		x.Type = 14
		x.TName = g.refTo(scope, e.full)
		if x.Label == 1 && !implicit && f.Syntax != "proto3" && g.p(1, 3) {
			x.HD, x.Def = true, e.e.Vals[r.IntN(len(e.e.Vals))].Name
		}
		if len(f.Deps) > 0 && g.p(1, 5) && !x.HD {
			if f.Syntax == "proto3" || implicit {
				x.TName = ".dep.DO"
			} else {
				x.TName = g.pick(".dep.DO", ".dep.DC")
			}
		}
	}
	scalar := x.Type != 11 && x.Type != 14
	if scalar && x.Label != 3 && !implicit && f.Syntax != "proto3" && g.p(1, 3) {
		x.HD, x.Def = true, scalarDefault(r, x.Type)
	}
	if !ed && x.Label == 3 && x.Type != 9 && x.Type != 12 && x.Type != 11 && g.p(1, 3) {
		x.Packed = g.pick("t", "f")
	}
	if !isExt && g.p(1, 6) {
		x.HJ, x.JSON = true, g.pick("customName", "json_"+name, "X")
	}
	x.Dep = g.p(1, 10)
	// `type` omitted, as per-file parsers write message and enum fields: the kind follows from type_name
	if (x.Type == 11 || x.Type == 14) && g.p(1, 5) {
		x.Type = 0
	}
	return x
}

func (g *sgen) fields(n *gnode) {
	r, f := g.r, g.f
	nf := r.IntN(7)
	num := 0
	inOneof := 0
	for i := 0; i < nf; i++ {
		num += 1 + r.IntN(6)
		if num >= 99 {
			num = 200 + num
		}
		if i == nf-1 && g.p(1, 8) {
			num = 536869999
		}
		name := fmt.Sprintf("f%d", num)
		if g.p(1, 4) {
			name = fmt.Sprintf("foo_bar_%d", num)
		}
		switch c := r.IntN(12); {
		case c == 0 && f.Syntax == "proto2": // group
			g.seq++
			gn := &gnode{m: AMsg{Name: fmt.Sprintf("Grp%d", g.seq), Fields: []AField{{Name: "a", Num: 1, Label: 1, Type: 5}}, Oneofs: []AOneof{}, RR: [][2]int{}, RN: []string{}, XR: [][2]int{}}, parent: n}
			gn.full, gn.ef = join(n.full, gn.m.Name), n.ef
			n.children = append(n.children, gn)
			g.all = append(g.all, gn)
			n.m.Fields = append(n.m.Fields, AField{Name: strings.ToLower(gn.m.Name), Num: num, Label: []int{1, 3, 2}[r.IntN(3)], Type: 10, TName: "." + gn.full})
			inOneof = 0
		case c == 0 && f.Syntax == "editions": // group-like: a DELIMITED message field named after its nested message type
			g.seq++
			gn := &gnode{m: AMsg{Name: fmt.Sprintf("Grp%d", g.seq), Fields: []AField{{Name: "a", Num: 1, Label: 1, Type: 5}}, Oneofs: []AOneof{}, RR: [][2]int{}, RN: []string{}, XR: [][2]int{}}, parent: n}
			gn.full, gn.ef = join(n.full, gn.m.Name), n.ef
			n.children = append(n.children, gn)
			g.all = append(g.all, gn)
			x := AField{Name: strings.ToLower(gn.m.Name), Num: num, Label: []int{1, 3}[r.IntN(2)], Type: 11, TName: "." + gn.full}
			if !n.ef.delim || g.p(1, 2) {
				x.Feat.Me = "DELIMITED"
			}
			if g.p(1, 4) {
				x.Type = 0
			}
			n.m.Fields = append(n.m.Fields, x)
			inOneof = 0
		case c == 1: // map
			mname := fmt.Sprintf("map_f%d", num)
			en := &gnode{m: AMsg{Name: mapEntryName(mname), MapEntry: true, Oneofs: []AOneof{}, RR: [][2]int{}, RN: []string{}, XR: [][2]int{}}, parent: n}
			en.full, en.ef = join(n.full, en.m.Name), n.ef
			key := AField{Name: "key", Num: 1, Label: 1, Type: []int{3, 4, 5, 6, 7, 8, 9, 13, 15, 16, 17, 18}[r.IntN(12)]}
			val := AField{Name: "value", Num: 2, Label: 1, Type: scalarKinds[r.IntN(len(scalarKinds))]}
			switch r.IntN(4) {
			case 0:
				val.Type, val.TName = 11, g.refTo(en.full, g.plainMsg().full)
			case 1:
				var cands []*genum
				for _, e := range g.enums {
					if !(e.closed && (f.Syntax == "proto3" || !en.ef.fp)) {
						cands = append(cands, e)
					}
				}
				if len(cands) > 0 {
					val.Type, val.TName = 14, g.refTo(en.full, cands[r.IntN(len(cands))].full)
				}
			}
			en.m.Fields = []AField{key, val}
			n.children = append(n.children, en)
			g.all = append(g.all, en)
			n.m.Fields = append(n.m.Fields, AField{Name: mname, Num: num, Label: 3, Type: 11, TName: "." + en.full})
			inOneof = 0
		case c == 2 && f.Syntax == "proto3": // proto3 optional (synthetic oneof, must come after the real ones: emitted at the end)
			x := g.field(n, n.full, gEF{fp: true, open: true, packed: true}, name, num, false)
			x.Label, x.Packed, x.P3Opt = 1, "", true
			x.Oneof = -1 // resolved below
			n.m.Fields = append(n.m.Fields, x)
			inOneof = 0
		case c == 3 || (c == 4 && inOneof > 0): // oneof member
			if inOneof == 0 || c == 3 {
				n.m.Oneofs = append(n.m.Oneofs, AOneof{Name: fmt.Sprintf("choice%d", len(n.m.Oneofs)+1)})
				inOneof = len(n.m.Oneofs)
			}
			x := g.field(n, n.full, gEF{fp: true, open: n.ef.open, packed: n.ef.packed, delim: n.ef.delim}, name, num, false)
			x.Label, x.Packed, x.Oneof = 1, "", inOneof
			if x.Feat.Fp != "" {
				x.Feat.Fp = ""
			}
			if f.Syntax == "proto3" {
				x.HD, x.Def = false, ""
			}
			// members sharing a JSON name are legal for protodesc: keyed lookups of the oneof must stay first-wins
			if k := len(n.m.Fields); k > 0 && n.m.Fields[k-1].Oneof == inOneof && g.p(1, 3) {
				n.m.Fields[k-1].HJ, n.m.Fields[k-1].JSON = true, "sameJson"
				x.HJ, x.JSON = true, "sameJson"
			}
			n.m.Fields = append(n.m.Fields, x)
		default:
			x := g.field(n, n.full, n.ef, name, num, false)
			n.m.Fields = append(n.m.Fields, x)
			inOneof = 0
		}
	}
	// synthetic oneofs last
	for i := range n.m.Fields {
		if n.m.Fields[i].Oneof == -1 {
			n.m.Oneofs = append(n.m.Oneofs, AOneof{Name: "_" + n.m.Fields[i].Name})
			n.m.Fields[i].Oneof = len(n.m.Oneofs)
		}
	}
	// the lower-cased JSON name of a group-like field is an alias for it: give some of them an explicit json_name whose
	// lower-casing is another field's exact JSON name (declared before or after it) -- the alias must not shadow that field
	for i := range n.m.Fields {
		x := &n.m.Fields[i]
		glike := (x.Type == 10 || x.Type == 11 || x.Type == 0) && strings.HasPrefix(x.Name, "grp") && !x.HJ
		if !glike || len(n.m.Fields) < 2 || !g.p(1, 2) {
			continue
		}
		k := r.IntN(len(n.m.Fields))
		if k == i || n.m.Fields[k].HJ {
			continue
		}
		o := &n.m.Fields[k]
		if jn := jsonCamel(o.Name); jn == strings.ToLower(jn) && jn != strings.ToUpper(jn) && g.p(1, 2) {
			x.HJ, x.JSON = true, strings.ToUpper(jn) // against the other field's name-derived JSON name
		} else {
			x.HJ, x.JSON = true, fmt.Sprintf("AKA%d", x.Num)
			o.HJ, o.JSON = true, fmt.Sprintf("aka%d", x.Num)
		}
	}
	// a duplicate JSON name is legal for protodesc: keyed lookups must then return the first field
	if len(n.m.Fields) > 1 && g.p(1, 8) {
		a, b := &n.m.Fields[0], &n.m.Fields[len(n.m.Fields)-1]
		if !a.HJ {
			b.HJ, b.JSON = true, jsonCamel(a.Name)
		}
	}
}

func mapEntryName(s string) string {
	var b []byte
	up := true
	for i := 0; i < len(s); i++ {
		c := s[i]
		switch {
		case c == '_':
			up = true
		case up:
			if 'a' <= c && c <= 'z' {
				c -= 'a' - 'A'
			}
			b = append(b, c)
			up = false
		default:
			b = append(b, c)
		}
	}
	return string(b) + "Entry"
}

func jsonCamel(s string) string {
	var b []byte
	up := false
	for i := 0; i < len(s); i++ {
		c := s[i]
		if c == '_' {
			up = true
			continue
		}
		if up && 'a' <= c && c <= 'z' {
			c -= 'a' - 'A'
		}
		up = false
		b = append(b, c)
	}
	return string(b)
}

// flatten writes the message tree in depth-first pre-order and the enums grouped by parent.
func (g *sgen) flatten() {
	f := g.f
	var order []*gnode
	var walk func(n *gnode, parent int)
	walk = func(n *gnode, parent int) {
		n.m.Parent = parent
		f.Msgs = append(f.Msgs, n.m)
		order = append(order, n)
		n.idx = len(f.Msgs)
		for _, c := range n.children {
			walk(c, n.idx)
		}
	}
	for _, n := range g.roots {
		walk(n, 0)
	}
	g.all = order
	for pass := 0; pass <= len(order); pass++ {
		for _, e := range g.enums {
			p := 0
			if e.scope != nil {
				p = e.scope.idx
			}
			if p == pass {
				e.e.Parent = p
				f.Enums = append(f.Enums, e.e)
			}
		}
	}
}

// ---------------------------------------------------------------- abstract-level mutation

var featValues = map[string][]string{
	"fp": {"", "IMPLICIT", "EXPLICIT", "LEGACY_REQUIRED"}, "et": {"", "OPEN", "CLOSED"}, "rfe": {"", "PACKED", "EXPANDED"},
	"utf8": {"", "VERIFY", "NONE"}, "me": {"", "DELIMITED", "LENGTH_PREFIXED"}, "jf": {"", "ALLOW", "LEGACY_BEST_EFFORT"},
}

func (g *sgen) mutInt(v int) int {
	c := []int{0, 1, 2, -1, v + 1, v - 1, 3, 19000, 19999, 536870911, 536870912, 100, 1000, 1999, 2000, 4}
	return c[g.r.IntN(len(c))]
}

func (g *sgen) mutFS(fs *FS) {
	switch g.r.IntN(6) {
	case 0:
		fs.Fp = featValues["fp"][g.r.IntN(4)]
	case 1:
		fs.Et = featValues["et"][g.r.IntN(3)]
	case 2:
		fs.Rfe = featValues["rfe"][g.r.IntN(3)]
	case 3:
		fs.Utf8 = featValues["utf8"][g.r.IntN(3)]
	case 4:
		fs.Me = featValues["me"][g.r.IntN(3)]
	case 5:
		fs.Jf = featValues["jf"][g.r.IntN(3)]
	}
}

func (g *sgen) someName(f *AFile) string {
	var names []string
	names = append(names, "", "key", "value", "1bad", "a.b", f.Pkg)
	for _, m := range f.Msgs {
		names = append(names, m.Name)
		for _, x := range m.Fields {
			names = append(names, x.Name, x.TName)
		}
	}
	for _, e := range f.Enums {
		names = append(names, e.Name)
		for _, v := range e.Vals {
			names = append(names, v.Name)
		}
	}
	return names[g.r.IntN(len(names))]
}

func (g *sgen) mutField(f *AFile, x *AField, isExt bool) {
	r := g.r
	switch r.IntN(14) {
	case 0:
		x.Name = g.someName(f)
	case 1:
		x.Num = g.mutInt(x.Num)
	case 2:
		x.Label = r.IntN(5)
	case 3:
		x.Type = r.IntN(20)
	case 4:
		x.TName = g.someName(f)
	case 5:
		x.HJ = !x.HJ
		x.JSON = ""
		if x.HJ {
			x.JSON = g.pick("customName", "x", jsonCamel(x.Name))
		}
	case 6:
		x.HD = !x.HD
		x.Def = ""
		if x.HD {
			x.Def = g.pick("0", "5", "-7", "true", "hello", "", "1.5", "inf", "nan", "EN1_V0", "EN1_V1", "DC_A")
		}
	case 7:
		x.Oneof = r.IntN(4)
	case 8:
		x.P3Opt = !x.P3Opt
	case 9:
		x.Packed = g.pick("", "t", "f")
	case 10:
		g.mutFS(&x.Feat)
	case 11:
		if isExt {
			x.Extendee = g.someName(f)
		} else {
			x.Extendee = g.pick("", x.TName)
		}
	case 12:
		x.Lazy = !x.Lazy
	case 13:
		x.Type, x.TName = []int{5, 9, 11, 14, 10, 0}[r.IntN(6)], g.pick("", x.TName)
	}
}

func mutRanges(g *sgen, rs [][2]int) [][2]int {
	r := g.r
	rs = append([][2]int{}, rs...)
	switch {
	case len(rs) == 0 || r.IntN(3) == 0:
		lo := g.mutInt(r.IntN(3000))
		rs = append(rs, [2]int{lo, lo + r.IntN(4) - 1})
	case r.IntN(2) == 0:
		i := r.IntN(len(rs))
		rs[i][r.IntN(2)] = g.mutInt(rs[i][0])
	default:
		rs = append(rs, rs[r.IntN(len(rs))])
	}
	return rs
}

// Mutate applies one random edit to a deep copy of f.
func (g *sgen) mutate(f0 *AFile) *AFile {
	f := FileFromAny(core.Norm(ToAny(f0)))
	r := g.r
	for tries := 0; tries < 20; tries++ {
		switch c := r.IntN(20); {
		case c == 0:
			f.Syntax = g.pick("proto2", "proto3", "editions", "proto4")
			if f.Syntax == "editions" {
				f.Edition = []int{1000, 1001, 0, 1002, 900}[r.IntN(5)] // (editions syntax with edition 998/999 is a hybrid nobody specifies)
			} else {
				f.Edition = 0
			}
			return f
		case c == 1:
			f.Pkg = g.pick("", "g", "g..h", "1g", "g.h")
			return f
		case c == 2:
			g.mutFS(&f.Feat)
			return f
		case c < 9 && len(f.Msgs) > 0:
			m := &f.Msgs[r.IntN(len(f.Msgs))]
			if len(m.Fields) == 0 {
				continue
			}
			switch r.IntN(8) {
			case 0: // delete a field
				j := r.IntN(len(m.Fields))
				m.Fields = append(append([]AField{}, m.Fields[:j]...), m.Fields[j+1:]...)
			case 1: // duplicate a field
				j := r.IntN(len(m.Fields))
				m.Fields = append(m.Fields, m.Fields[j])
			case 2: // swap two fields
				a, b := r.IntN(len(m.Fields)), r.IntN(len(m.Fields))
				m.Fields[a], m.Fields[b] = m.Fields[b], m.Fields[a]
			default:
				g.mutField(f, &m.Fields[r.IntN(len(m.Fields))], false)
			}
			return f
		case c < 12 && len(f.Msgs) > 0:
			m := &f.Msgs[r.IntN(len(f.Msgs))]
			switch r.IntN(8) {
			case 0:
				m.Name = g.someName(f)
			case 1:
				m.MapEntry = !m.MapEntry
			case 2:
				m.RR = mutRanges(g, m.RR)
			case 3:
				m.XR = mutRanges(g, m.XR)
			case 4:
				m.RN = append(append([]string{}, m.RN...), g.someName(f))
			case 5:
				m.Oneofs = append(append([]AOneof{}, m.Oneofs...), AOneof{Name: g.pick("extra_oneof", g.someName(f))})
			case 6:
				if len(m.Oneofs) > 0 {
					m.Oneofs = m.Oneofs[:len(m.Oneofs)-1]
				}
			case 7:
				g.mutFS(&m.Feat)
			}
			return f
		case c < 16 && len(f.Enums) > 0:
			e := &f.Enums[r.IntN(len(f.Enums))]
			switch r.IntN(8) {
			case 0:
				e.Name = g.someName(f)
			case 1:
				e.Alias = !e.Alias
			case 2:
				e.RR = mutRanges(g, e.RR)
			case 3:
				e.RN = append(append([]string{}, e.RN...), g.someName(f))
			case 4:
				if len(e.Vals) > 0 {
					j := r.IntN(len(e.Vals))
					e.Vals = append(append([]AVal{}, e.Vals[:j]...), e.Vals[j+1:]...)
				}
			case 5:
				if len(e.Vals) > 0 {
					e.Vals[r.IntN(len(e.Vals))].Num = g.mutInt(e.Vals[0].Num)
				}
			case 6:
				if len(e.Vals) > 0 {
					e.Vals[r.IntN(len(e.Vals))].Name = g.someName(f)
				}
			case 7:
				g.mutFS(&e.Feat)
			}
			return f
		case c < 18 && len(f.Exts) > 0:
			g.mutField(f, &f.Exts[r.IntN(len(f.Exts))], true)
			return f
		case c == 18 && len(f.Svcs) > 0:
			s := &f.Svcs[r.IntN(len(f.Svcs))]
			if len(s.Methods) == 0 {
				s.Name = g.someName(f)
			} else {
				m := &s.Methods[r.IntN(len(s.Methods))]
				switch r.IntN(3) {
				case 0:
					m.In = g.someName(f)
				case 1:
					m.Out = g.someName(f)
				case 2:
					m.Name = g.someName(f)
				}
			}
			return f
		case c == 19:
			switch r.IntN(3) {
			case 0:
				f.Deps = append(f.Deps, ADep{Path: "missing.proto", Missing: true})
			case 1:
				if len(f.Deps) > 0 {
					f.Deps = append(f.Deps, f.Deps[0])
				}
			case 2:
				if len(f.Deps) > 0 { // drop the import but keep referring to its declarations
					f.Deps = []ADep{}
					for i := range f.Imps {
						f.Imps[i].Vis = false
					}
				}
			}
			return f
		}
	}
	return f
}

// canonical restores the representation invariants of abstract files (absent values are empty).
func canonical(f *AFile) {
	fix := func(x *AField) {
		if !x.HJ {
			x.JSON = ""
		}
		if !x.HD {
			x.Def = ""
		}
		if x.Oneof < 0 {
			x.Oneof = 0
		}
	}
	for i := range f.Msgs {
		for j := range f.Msgs[i].Fields {
			fix(&f.Msgs[i].Fields[j])
			f.Msgs[i].Fields[j].Parent = 0
		}
	}
	for i := range f.Exts {
		fix(&f.Exts[i])
	}
	if f.Syntax != "editions" && f.Syntax != "proto2" && f.Syntax != "proto3" {
		f.Edition = 0
	}
}

func wantList(def string) []any {
	w := os.Getenv("DESC_WANT")
	if w == "" {
		w = def
	}
	var wl []any
	for _, s := range strings.Split(w, ",") {
		if s != "" {
			wl = append(wl, s)
		}
	}
	return wl
}

// genOther: DESC_GEN = schemas | mutants | fuzz | defaults | pair | pairschema | xlate
func genOther(mode string, r *rand.Rand, n int, emit func(core.Case)) {
	switch mode {
	case "schemas":
		for i := 0; i < n; i++ {
			f := GenFile(r)
			emit(core.Case{"op": "file", "file": ToAny(f), "allow": r.IntN(4) == 0, "want": wantList("snap,back,rt,bsnap,bsame,blazy"), "mode": "valid"})
		}
	case "mutants":
		g := &sgen{r: r}
		for i := 0; i < n; {
			f := GenFile(r)
			for k := 0; k < 6 && i < n; k++ {
				m := g.mutate(f)
				if r.IntN(4) == 0 {
					m = g.mutate(m)
				}
				canonical(m)
				emit(core.Case{"op": "file", "file": ToAny(m), "allow": r.IntN(2) == 0, "want": wantList("snap"), "mode": "mutant"})
				i++
			}
		}
	case "fuzz":
		for i := 0; i < n; i++ {
			var f *AFile
			for {
				f = GenFile(r)
				if len(f.Msgs) > 0 {
					break
				}
			}
			emit(core.Case{"op": "fuzz", "file": ToAny(f), "mseed": r.IntN(1 << 30), "n": 1 + r.IntN(4)})
		}
	case "defaults":
		for _, e := range []int{998, 999, 1000, 1001, 9999} {
			emit(core.Case{"op": "defaults", "edition": e})
		}
	case "pair":
		genPair(r, n, emit)
	case "xlate":
		genXlate(r, n, emit)
	case "pairschema":
		for k := range pairs() {
			emit(core.Case{"op": "pairschema", "pair": k, "strict": strictPair(k)})
		}
	default:
		harnessBug("unknown DESC_GEN mode %q", mode)
	}
}
