package desc

import (
	"bytes"
	"encoding/hex"
	"encoding/json"
	"fmt"
	"math/rand/v2"
	"sort"
	"strings"

	"google.golang.org/protobuf/encoding/protojson"
	"google.golang.org/protobuf/encoding/prototext"
	"google.golang.org/protobuf/encoding/protowire"
	"google.golang.org/protobuf/internal/filedesc"
	"google.golang.org/protobuf/internal/strs"
	"google.golang.org/protobuf/internal/verifh/core"
	"google.golang.org/protobuf/proto"
	"google.golang.org/protobuf/reflect/protodesc"
	"google.golang.org/protobuf/reflect/protoreflect"
	"google.golang.org/protobuf/reflect/protoregistry"
	"google.golang.org/protobuf/types/descriptorpb"

	fuzzpb "google.golang.org/protobuf/internal/testprotos/editionsfuzztest"
	testpb "google.golang.org/protobuf/internal/testprotos/test"
	testedpb "google.golang.org/protobuf/internal/testprotos/testeditions"
)

// C38, second half: a proto2 / proto3 message type and its editions translation.

type msgPair struct {
	name string
	a, b proto.Message
}

func pairs() []msgPair {
	return []msgPair{
		{"fuzz2", (*fuzzpb.TestAllTypesProto2)(nil), (*fuzzpb.TestAllTypesProto2Editions)(nil)},
		{"fuzz3", (*fuzzpb.TestAllTypesProto3)(nil), (*fuzzpb.TestAllTypesProto3Editions)(nil)},
		{"test.TestRequired", (*testpb.TestRequired)(nil), (*testedpb.TestRequired)(nil)},
		{"test.TestRequiredForeign", (*testpb.TestRequiredForeign)(nil), (*testedpb.TestRequiredForeign)(nil)},
		{"test.TestRequiredGroupFields", (*testpb.TestRequiredGroupFields)(nil), (*testedpb.TestRequiredGroupFields)(nil)},
		{"test.TestOneofWithRequired", (*testpb.TestOneofWithRequired)(nil), (*testedpb.TestOneofWithRequired)(nil)},
	}
}

func canonJSON(b []byte) string {
	d := json.NewDecoder(bytes.NewReader(b))
	d.UseNumber()
	var v any
	if err := d.Decode(&v); err != nil {
		return "!" + err.Error()
	}
	o, err := json.Marshal(v) // map keys sorted
	if err != nil {
		return "!" + err.Error()
	}
	return "hex:" + hex.EncodeToString(o)
}

// observe decodes b into a fresh message of m's type and projects everything the runtime shows about it.
func observe(m proto.Message, b []byte) (o map[string]any, x proto.Message) {
	defer func() {
		if x := recover(); x != nil {
			o = map[string]any{"panic": fmt.Sprint(x)}
		}
	}()
	x = m.ProtoReflect().Type().New().Interface()
	err := proto.UnmarshalOptions{AllowPartial: false}.Unmarshal(b, x)
	o = map[string]any{"ok": err == nil, "utf8err": err != nil && strings.Contains(err.Error(), "invalid UTF-8")}
	if err != nil {
		// partial decode: does it at least agree structurally?
		x = m.ProtoReflect().Type().New().Interface()
		err2 := proto.UnmarshalOptions{AllowPartial: true}.Unmarshal(b, x)
		o["partial"] = err2 == nil
		if err2 != nil {
			return o, nil
		}
	}
	det, err := proto.MarshalOptions{Deterministic: true, AllowPartial: true}.Marshal(x)
	o["det"] = hex.EncodeToString(det)
	o["deterr"] = err != nil
	o["size"] = proto.Size(x)
	o["init"] = proto.CheckInitialized(x) == nil
	js, err := protojson.MarshalOptions{UseEnumNumbers: true, AllowPartial: true}.Marshal(x)
	o["jsonok"] = err == nil
	if err == nil {
		o["json"] = canonJSON(js)
		y := m.ProtoReflect().Type().New().Interface()
		err := protojson.UnmarshalOptions{AllowPartial: true}.Unmarshal(js, y)
		o["jsonrt"] = err == nil && proto.Equal(x, y)
	}
	tx, err := prototext.MarshalOptions{AllowPartial: true}.Marshal(x)
	o["textok"] = err == nil
	if err == nil {
		y := m.ProtoReflect().Type().New().Interface()
		err := prototext.UnmarshalOptions{AllowPartial: true}.Unmarshal(tx, y)
		o["textrt"] = err == nil && proto.Equal(x, y)
	}
	return o, x
}

func execPair(c core.Case, out core.Case) {
	k := core.Int(c["pair"])
	ps := pairs()
	if k < 0 || k >= len(ps) {
		harnessBug("pair index %d", k)
	}
	b := core.Bytes(c["b"])
	oa, xa := observe(ps[k].a, b)
	ob, xb := observe(ps[k].b, b)
	out["a"], out["b"] = oa, ob
	// content comparison across the two types: B's message re-encoded and decoded as an A message
	cross := true
	if xa != nil && xb != nil && oa["ok"] == true && ob["ok"] == true {
		func() {
			defer func() {
				if x := recover(); x != nil {
					out["panic"] = fmt.Sprint(x)
				}
			}()
			wb, err := proto.MarshalOptions{AllowPartial: true}.Marshal(xb)
			y := ps[k].a.ProtoReflect().Type().New().Interface()
			cross = err == nil && proto.UnmarshalOptions{AllowPartial: true}.Unmarshal(wb, y) == nil && proto.Equal(xa, y)
		}()
	}
	out["cross"] = cross
}

// strictPair: the two types are exact translations of each other (the specification checks that claim on the schemas)
func strictPair(k int) bool { return k < 2 }

// ---- schema side: the two types field by field

type PField struct {
	SField
	MsgIdx     int   `json:"msgidx"`     // position of the field's message type in the reachable list, -1 if none
	EnumClosed bool  `json:"enumclosed"` // Enum().IsClosed()
	EnumNums   []int `json:"enumnums"`   // numbers of the enum's values, in declaration order
	RealOneof  int   `json:"realoneof"`  // 1 + index among the *real* oneofs of the message, 0 if none
	EffUtf8    bool  `json:"effutf8"`    // strs.EnforceUTF8: what the codecs actually consult
}

type PMsg struct {
	Fields []PField `json:"fields"` // sorted by number
	XR     [][2]int `json:"xr"`
	Req    []int    `json:"req"`
}

func reachable(root protoreflect.MessageDescriptor) []protoreflect.MessageDescriptor {
	seen := map[protoreflect.FullName]int{root.FullName(): 0}
	list := []protoreflect.MessageDescriptor{root}
	for i := 0; i < len(list); i++ {
		fs := list[i].Fields()
		idx := make([]int, fs.Len())
		for j := range idx {
			idx[j] = j
		}
		sort.Slice(idx, func(a, b int) bool { return fs.Get(idx[a]).Number() < fs.Get(idx[b]).Number() })
		for _, j := range idx {
			if md := fs.Get(j).Message(); md != nil {
				if _, ok := seen[md.FullName()]; !ok {
					seen[md.FullName()] = len(list)
					list = append(list, md)
				}
			}
		}
	}
	return list
}

func schemaOf(root protoreflect.MessageDescriptor) []PMsg {
	list := reachable(root)
	pos := map[protoreflect.FullName]int{}
	for i, md := range list {
		pos[md.FullName()] = i
	}
	var res []PMsg
	for _, md := range list {
		s := &snapper{file: md.ParentFile()}
		pm := PMsg{Fields: []PField{}, XR: [][2]int{}, Req: []int{}}
		fs := md.Fields()
		realIdx := map[protoreflect.FullName]int{}
		for i := 0; i < md.Oneofs().Len(); i++ {
			if !md.Oneofs().Get(i).IsSynthetic() {
				realIdx[md.Oneofs().Get(i).FullName()] = len(realIdx) + 1
			}
		}
		for j := 0; j < fs.Len(); j++ {
			fd := fs.Get(j)
			pf := PField{SField: s.field(fd, j, fs, fs.ByName(fd.Name())), MsgIdx: -1, EnumNums: []int{}, EffUtf8: strs.EnforceUTF8(fd)}
			if m := fd.Message(); m != nil {
				pf.MsgIdx = pos[m.FullName()]
			}
			if e := fd.Enum(); e != nil {
				pf.EnumClosed = e.IsClosed()
				for k := 0; k < e.Values().Len(); k++ {
					pf.EnumNums = append(pf.EnumNums, int(e.Values().Get(k).Number()))
				}
			}
			if o := fd.ContainingOneof(); o != nil {
				pf.RealOneof = realIdx[o.FullName()]
			}
			pm.Fields = append(pm.Fields, pf)
		}
		sort.SliceStable(pm.Fields, func(a, b int) bool { return pm.Fields[a].Num < pm.Fields[b].Num })
		for i := 0; i < md.ExtensionRanges().Len(); i++ {
			r := md.ExtensionRanges().Get(i)
			pm.XR = append(pm.XR, [2]int{int(r[0]), int(r[1])})
		}
		for i := 0; i < md.RequiredNumbers().Len(); i++ {
			pm.Req = append(pm.Req, int(md.RequiredNumbers().Get(i)))
		}
		sort.Ints(pm.Req)
		res = append(res, pm)
	}
	return res
}

func execPairSchema(c core.Case, out core.Case) {
	k := core.Int(c["pair"])
	ps := pairs()
	out["name"] = ps[k].name
	if core.Bool(c["strict"]) != strictPair(k) {
		harnessBug("pair %d: strictness flag", k)
	}
	out["a"] = ToAny(schemaOf(ps[k].a.ProtoReflect().Descriptor()))
	out["b"] = ToAny(schemaOf(ps[k].b.ProtoReflect().Descriptor()))
}

// ---- inputs: random valid messages of the A type, marshalled and mutated

func randValue(r *rand.Rand, fd protoreflect.FieldDescriptor, m protoreflect.Message, depth int) protoreflect.Value {
	switch fd.Kind() {
	case protoreflect.BoolKind:
		return protoreflect.ValueOfBool(r.IntN(2) == 0)
	case protoreflect.Int32Kind, protoreflect.Sint32Kind, protoreflect.Sfixed32Kind:
		return protoreflect.ValueOfInt32(int32(randBits(r)))
	case protoreflect.Int64Kind, protoreflect.Sint64Kind, protoreflect.Sfixed64Kind:
		return protoreflect.ValueOfInt64(int64(randBits(r)))
	case protoreflect.Uint32Kind, protoreflect.Fixed32Kind:
		return protoreflect.ValueOfUint32(uint32(randBits(r)))
	case protoreflect.Uint64Kind, protoreflect.Fixed64Kind:
		return protoreflect.ValueOfUint64(randBits(r))
	case protoreflect.FloatKind:
		return protoreflect.ValueOfFloat32([]float32{0, 1.5, -2, 3e10}[r.IntN(4)])
	case protoreflect.DoubleKind:
		return protoreflect.ValueOfFloat64([]float64{0, 1.5, -2, 3e100}[r.IntN(4)])
	case protoreflect.StringKind:
		return protoreflect.ValueOfString([]string{"", "a", "hello", "\xff", "é"}[r.IntN(5)])
	case protoreflect.BytesKind:
		return protoreflect.ValueOfBytes([]byte{byte(r.IntN(256)), 0xff}[:r.IntN(3)])
	case protoreflect.EnumKind:
		vs := fd.Enum().Values()
		if r.IntN(4) == 0 {
			return protoreflect.ValueOfEnum(protoreflect.EnumNumber(r.IntN(9) - 2))
		}
		return protoreflect.ValueOfEnum(vs.Get(r.IntN(vs.Len())).Number())
	default:
		panic("randValue: composite kind")
	}
}

func randBits(r *rand.Rand) uint64 {
	n := r.IntN(65)
	if n == 0 {
		return 0
	}
	v := r.Uint64() >> (64 - n)
	if r.IntN(4) == 0 {
		return ^v
	}
	return v
}

func fillRandom(r *rand.Rand, m protoreflect.Message, depth int) {
	fs := m.Descriptor().Fields()
	for i := 0; i < fs.Len(); i++ {
		fd := fs.Get(i)
		if r.IntN(5) != 0 && !(fd.Cardinality() == protoreflect.Required && r.IntN(8) != 0) {
			continue
		}
		switch {
		case fd.IsMap():
			mp := m.Mutable(fd).Map()
			for k := r.IntN(3); k > 0; k-- {
				key := randValue(r, fd.MapKey(), m, depth).MapKey()
				if fd.MapValue().Message() != nil {
					v := mp.NewValue()
					if depth > 0 {
						fillRandom(r, v.Message(), depth-1)
					}
					mp.Set(key, v)
				} else {
					mp.Set(key, randValue(r, fd.MapValue(), m, depth))
				}
			}
		case fd.IsList():
			l := m.Mutable(fd).List()
			for k := r.IntN(3); k > 0; k-- {
				if fd.Message() != nil {
					v := l.NewElement()
					if depth > 0 {
						fillRandom(r, v.Message(), depth-1)
					}
					l.Append(v)
				} else {
					l.Append(randValue(r, fd, m, depth))
				}
			}
		case fd.Message() != nil:
			if depth > 0 {
				fillRandom(r, m.Mutable(fd).Message(), depth-1)
			}
		default:
			m.Set(fd, randValue(r, fd, m, depth))
		}
	}
}

func mutateBytes(r *rand.Rand, b []byte) []byte {
	b = append([]byte{}, b...)
	if len(b) == 0 {
		return b
	}
	switch r.IntN(8) {
	case 0:
		return b[:r.IntN(len(b))]
	case 1:
		b[r.IntN(len(b))] = byte(r.Uint32())
	case 2:
		i := r.IntN(len(b))
		b = append(b[:i], append([]byte{byte(r.IntN(256))}, b[i:]...)...)
	case 3:
		i := r.IntN(len(b))
		b = append(b[:i], b[i+1:]...)
	case 4: // append a field with a random number and wire type
		b = protowire.AppendTag(b, protowire.Number(1+r.IntN(130)), protowire.Type(r.IntN(6)))
		b = protowire.AppendVarint(b, randBits(r))
	case 5: // duplicate a suffix (repeated occurrences, merging)
		i := r.IntN(len(b))
		b = append(b, b[i:]...)
	case 6:
		b[0] = b[0]&^7 | byte(r.IntN(8))
	}
	return b
}

// pairInput builds one input for pair k from a private seed (so that it can be rebuilt inside Exec).
func pairInput(k int, gseed uint64) []byte {
	r := rand.New(rand.NewPCG(gseed, 0xfeed))
	ps := pairs()
	src := ps[k].a
	if r.IntN(2) == 0 {
		src = ps[k].b
	}
	m := src.ProtoReflect().Type().New()
	fillRandom(r, m, 2)
	b, err := proto.MarshalOptions{AllowPartial: true}.Marshal(m.Interface())
	if err != nil {
		b = nil // e.g. invalid UTF-8 in a validated string: still an interesting input after mutation
	}
	for t := r.IntN(3); t > 0; t-- {
		b = mutateBytes(r, b)
	}
	if len(b) > 4000 {
		b = b[:4000]
	}
	return b
}

func genPair(r *rand.Rand, n int, emit func(core.Case)) {
	ps := pairs()
	for i := 0; i < n; i++ {
		k := r.IntN(len(ps))
		if r.IntN(2) == 0 {
			k = r.IntN(2)
		}
		gseed := r.Uint64() >> 34
		var b []byte
		ok := func() (ok bool) {
			defer func() { ok = recover() == nil }()
			b = pairInput(k, gseed)
			return true
		}()
		if !ok {
			// building the input through the reflection API panicked: let Exec reproduce and report it
			emit(core.Case{"op": "pairgen", "pair": k, "gseed": int(gseed)})
			continue
		}
		emit(core.Case{"op": "pair", "pair": k, "strict": strictPair(k), "b": core.B(b)})
	}
}

func execPairGen(c core.Case, out core.Case) {
	b := pairInput(core.Int(c["pair"]), uint64(core.Int(c["gseed"])))
	out["len"] = len(b)
}

// ---- edition defaults (C38, first half, base case)

func execDefaults(c core.Case, out core.Case) {
	ed := core.Int(c["edition"])
	f := &AFile{Path: "defaults.proto", Syntax: "editions", Edition: ed}
	switch ed {
	case 998:
		f.Syntax, f.Edition = "proto2", 0
	case 999:
		f.Syntax, f.Edition = "proto3", 0
	}
	p := Render(f)
	d, err, pan := newFile(p, false, nil)
	if pan != "" || err != nil {
		out["panic"] = fmt.Sprint("NewFile: ", pan, err)
		return
	}
	out["ef"] = ToAny(efOf(d.(*filedesc.File).L1.EditionFeatures))
	bd, pan := build(p, &emptyResolver{})
	if pan != "" {
		out["panic"] = "Builder: " + pan
		return
	}
	out["bef"] = ToAny(efOf(bd.(*filedesc.File).L1.EditionFeatures))
}

type emptyResolver struct{}

var errNotFound = protoregistry.NotFound

func (*emptyResolver) FindFileByPath(string) (protoreflect.FileDescriptor, error) {
	return nil, errNotFound
}
func (*emptyResolver) FindDescriptorByName(protoreflect.FullName) (protoreflect.Descriptor, error) {
	return nil, errNotFound
}

// ---- proto-level fuzzing (C35: NewFile never panics, whatever the descriptor proto looks like)

var fuzzInts = []int64{0, 1, -1, 2, 3, 18999, 19000, 19999, 20000, 536870911, 536870912, 2147483647, -2147483647, 100, 1000}
var fuzzStrings = []string{"", "a", "1", ".", "..", "a.b", ".a", "A", "key", "value", "FooEntry", "proto2", "proto3", "editions", "*", "a b", "\xff"}

func fuzzMessage(r *rand.Rand, m protoreflect.Message, names []string, depth int) {
	fs := m.Descriptor().Fields()
	fd := fs.Get(r.IntN(fs.Len()))
	str := func() string {
		if len(names) > 0 && r.IntN(2) == 0 {
			return names[r.IntN(len(names))]
		}
		return fuzzStrings[r.IntN(len(fuzzStrings))]
	}
	scalar := func() protoreflect.Value {
		switch fd.Kind() {
		case protoreflect.BoolKind:
			return protoreflect.ValueOfBool(r.IntN(2) == 0)
		case protoreflect.Int32Kind:
			return protoreflect.ValueOfInt32(int32(fuzzInts[r.IntN(len(fuzzInts))]))
		case protoreflect.Int64Kind:
			return protoreflect.ValueOfInt64(fuzzInts[r.IntN(len(fuzzInts))])
		case protoreflect.Uint64Kind:
			return protoreflect.ValueOfUint64(uint64(r.IntN(100)))
		case protoreflect.DoubleKind:
			return protoreflect.ValueOfFloat64(1.5)
		case protoreflect.StringKind:
			return protoreflect.ValueOfString(str())
		case protoreflect.BytesKind:
			return protoreflect.ValueOfBytes([]byte(str()))
		case protoreflect.EnumKind:
			return protoreflect.ValueOfEnum(protoreflect.EnumNumber(r.IntN(20)))
		}
		return protoreflect.Value{}
	}
	switch {
	case fd.IsMap():
		return
	case fd.IsList():
		l := m.Mutable(fd).List()
		switch c := r.IntN(5); {
		case c == 0 && l.Len() > 0: // delete one
			i := r.IntN(l.Len())
			var keep []protoreflect.Value
			for k := 0; k < l.Len(); k++ {
				if k != i {
					keep = append(keep, l.Get(k))
				}
			}
			l.Truncate(0)
			for _, v := range keep {
				l.Append(v)
			}
		case c == 1 && l.Len() > 0: // duplicate one
			v := l.Get(r.IntN(l.Len()))
			if fd.Message() != nil {
				v = protoreflect.ValueOfMessage(proto.Clone(v.Message().Interface()).ProtoReflect())
			}
			l.Append(v)
		case c == 2 && fd.Message() == nil:
			l.Append(scalar())
		case c == 2:
			l.Append(l.NewElement())
		case l.Len() > 0 && fd.Message() != nil && depth > 0: // descend
			fuzzMessage(r, l.Get(r.IntN(l.Len())).Message(), names, depth-1)
		case l.Len() > 0 && fd.Message() == nil:
			l.Set(r.IntN(l.Len()), scalar())
		}
	case fd.Message() != nil:
		switch {
		case r.IntN(4) == 0:
			m.Clear(fd)
		case depth > 0:
			fuzzMessage(r, m.Mutable(fd).Message(), names, depth-1)
		}
	default:
		if r.IntN(4) == 0 {
			m.Clear(fd)
		} else if v := scalar(); v.IsValid() {
			m.Set(fd, v)
		}
	}
}

func execFuzz(c core.Case, out core.Case) {
	f := FileFromAny(c["file"])
	p := Render(f)
	r := rand.New(rand.NewPCG(uint64(core.Int(c["mseed"])), 0x1234567))
	g := &sgen{r: r}
	var names []string
	for i := 0; i < 12; i++ {
		names = append(names, g.someName(f))
	}
	for k := core.Int(c["n"]); k > 0; k-- {
		fuzzMessage(r, p.ProtoReflect(), names, 5)
	}
	env := synthEnv(f)
	for i, allow := range []bool{false, true} {
		d, err, pan := newFile(p, allow, env)
		if pan != "" {
			out["panic"] = "protodesc.NewFile: " + pan
			raw, _ := proto.MarshalOptions{Deterministic: true, AllowPartial: true}.Marshal(p)
			out["proto"] = hex.EncodeToString(raw)
			return
		}
		key := fmt.Sprintf("ok%d", i+1)
		out[key] = err == nil
		if err == nil {
			ref := Abstract(p)
			s, pan := snapOf(d, false, ref)
			if pan != "" {
				out["panic"] = "accessor: " + pan
				raw, _ := proto.MarshalOptions{Deterministic: true, AllowPartial: true}.Marshal(p)
				out["proto"] = hex.EncodeToString(raw)
				return
			}
			if snapshotInRange(s) {
				out[fmt.Sprintf("snap%d", i+1)] = ToAny(s)
			}
			// the conversion back must not panic either
			func() {
				defer func() {
					if x := recover(); x != nil {
						out["panic"] = "ToFileDescriptorProto: " + fmt.Sprint(x)
					}
				}()
				_ = protodesc.ToFileDescriptorProto(d)
			}()
		}
	}
}

// snapshotInRange reports whether every number of the snapshot survives the JSON boundary.
func snapshotInRange(s *Snapshot) bool {
	ok := true
	var walk func(v any)
	walk = func(v any) {
		switch x := v.(type) {
		case float64:
			if x >= 1<<31 || x <= -(1<<31) {
				ok = false
			}
		case []any:
			for _, y := range x {
				walk(y)
			}
		case map[string]any:
			for _, y := range x {
				walk(y)
			}
		}
	}
	walk(ToAny(s))
	return ok
}

var _ = descriptorpb.Edition_EDITION_2023
