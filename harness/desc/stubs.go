package desc

import (
	"math/rand/v2"

	"google.golang.org/protobuf/internal/verifh/core"
)

func execFuzz(c core.Case, out core.Case)       {}
func execDefaults(c core.Case, out core.Case)   {}
func execPair(c core.Case, out core.Case)       {}
func execPairSchema(c core.Case, out core.Case) {}
func genOther(mode string, r *rand.Rand, n int, emit func(core.Case)) {}
