#!/bin/sh
# Offline setup: nothing is fetched.  Parses every specification module with SANY and warms the Go build cache.
set -e
cd "$(dirname "$0")"
export GOFLAGS=-mod=mod GOPROXY=off GOSUMDB=off GOTOOLCHAIN=local
command -v tlc >/dev/null && command -v go >/dev/null && command -v python3 >/dev/null
python3 tools/setup.py
